package main

// Models of time, sync, sync/atomic, encoding/binary.Read/Write and the CRC
// modes (DESIGN 2.5, 2.7).

import (
	"fmt"
	"go/token"
	"go/types"
	"time"
	"unsafe"
)

type notHandledT struct{}

var notHandled = notHandledT{}

// ---- time ----

const unixToInternal int64 = (1969*365 + 1969/4 - 1969/100 + 1969/400) * 86400

// The clock of every symbolic run starts at the instant at which Go's
// `faketime` runtime starts (2009-11-10 23:00:00 UTC); native replays are built
// with -tags faketime, so both sides read the same frozen clock.
var hostStart = time.Unix(1257894000, 0)

func (in *Interp) resetEnvModels() {
	in.clockSec = int64(hostStart.Unix())
	in.clockNsec = int64(hostStart.Nanosecond())
	in.files = map[string]*fileData{}
	in.kvs = map[string]*kvModel{}
}

// timeValue builds a time.Time for "now" = base clock + virtual offset.
func (in *Interp) timeValue() value {
	off := in.sched.now
	offSec, offNs := off/1e9, off%1e9
	var sec, nsec value
	switch ns := in.clockNsec.(type) {
	case int64:
		n := ns + offNs
		carry := int64(0)
		if n >= 1e9 {
			n -= 1e9
			carry = 1
		}
		nsec = n
		switch s := in.clockSec.(type) {
		case int64:
			sec = s + offSec + carry
		case *Term:
			sec = mkBvBin(opBvAdd, s, mkBV(64, uint64(offSec+carry)))
		}
	case *Term:
		n := mkBvBin(opBvAdd, ns, mkBV(64, uint64(offNs)))
		over := mkBvCmp(opBvUle, mkBV(64, 1e9), n)
		nsec = mkIte(over, mkBvBin(opBvSub, n, mkBV(64, 1e9)), n)
		st := toTerm(in.clockSec)
		sec = mkBvBin(opBvAdd, mkBvBin(opBvAdd, st, mkBV(64, uint64(offSec))), mkIte(over, mkBV(64, 1), mkBV(64, 0)))
	}
	var wall, ext value
	switch n := nsec.(type) {
	case int64:
		wall = uint64(n)
	case *Term:
		wall = n
	}
	switch s := sec.(type) {
	case int64:
		ext = s + unixToInternal
	case *Term:
		ext = mkBvBin(opBvAdd, s, mkBV(64, uint64(unixToInternal)))
	}
	return structure{wall, ext, (*value)(nil)}
}

// ---- sync ----

func cellStruct(v value) structure {
	p := v.(*value)
	if p == nil {
		rtPanic("invalid memory address or nil pointer dereference")
	}
	return (*p).(structure)
}

func addSyncIntrinsics() {
	t := intrinsicTable
	// Mutex: field 0 (state) 0 = unlocked, 1 = locked
	lock := func(in *Interp, st structure) {
		in.sched.block(func() bool { return st[0].(int32) == 0 }, "Mutex.Lock")
		st[0] = int32(1)
	}
	unlock := func(in *Interp, st structure) {
		if st[0].(int32) == 0 {
			panic(targetPanic{runtimeErr("fatal error: sync: unlock of unlocked mutex")})
		}
		st[0] = int32(0)
	}
	t["(*sync.Mutex).Lock"] = func(in *Interp, fr *frame, args []value) value {
		lock(in, cellStruct(args[0]))
		return nil
	}
	t["(*sync.Mutex).TryLock"] = func(in *Interp, fr *frame, args []value) value {
		st := cellStruct(args[0])
		if st[0].(int32) == 0 {
			st[0] = int32(1)
			return true
		}
		return false
	}
	t["(*sync.Mutex).Unlock"] = func(in *Interp, fr *frame, args []value) value {
		unlock(in, cellStruct(args[0]))
		if in.cfg.YieldOnUnlock {
			in.sched.yield()
		}
		return nil
	}
	// RWMutex: writerSem (field 1) = writer held, readerSem (field 2) = number of readers
	t["(*sync.RWMutex).Lock"] = func(in *Interp, fr *frame, args []value) value {
		st := cellStruct(args[0])
		in.sched.block(func() bool { return st[1].(uint32) == 0 && st[2].(uint32) == 0 }, "RWMutex.Lock")
		st[1] = uint32(1)
		return nil
	}
	t["(*sync.RWMutex).Unlock"] = func(in *Interp, fr *frame, args []value) value {
		st := cellStruct(args[0])
		if st[1].(uint32) == 0 {
			panic(targetPanic{runtimeErr("fatal error: sync: Unlock of unlocked RWMutex")})
		}
		st[1] = uint32(0)
		if in.cfg.YieldOnUnlock {
			in.sched.yield()
		}
		return nil
	}
	t["(*sync.RWMutex).RLock"] = func(in *Interp, fr *frame, args []value) value {
		st := cellStruct(args[0])
		in.sched.block(func() bool { return st[1].(uint32) == 0 }, "RWMutex.RLock")
		st[2] = st[2].(uint32) + 1
		return nil
	}
	t["(*sync.RWMutex).RUnlock"] = func(in *Interp, fr *frame, args []value) value {
		st := cellStruct(args[0])
		if st[2].(uint32) == 0 {
			panic(targetPanic{runtimeErr("fatal error: sync: RUnlock of unlocked RWMutex")})
		}
		st[2] = st[2].(uint32) - 1
		if in.cfg.YieldOnUnlock {
			in.sched.yield()
		}
		return nil
	}
	// Once: done.v at [0][last]
	t["(*sync.Once).Do"] = func(in *Interp, fr *frame, args []value) value {
		st := cellStruct(args[0])
		done := st[0].(structure)
		mu := st[1].(structure)
		if done[len(done)-1].(uint32) == 1 {
			return nil
		}
		lock(in, mu)
		defer func() {
			if mu[0].(int32) == 1 {
				mu[0] = int32(0)
			}
		}()
		if done[len(done)-1].(uint32) == 0 {
			defer func() { done[len(done)-1] = uint32(1) }()
			in.call(fr, fr.callPos, args[1], nil)
		}
		return nil
	}
	// WaitGroup: state.v (uint64) is the counter
	wgCounter := func(st structure) *value {
		s := st[1].(structure)
		return &s[len(s)-1]
	}
	t["(*sync.WaitGroup).Add"] = func(in *Interp, fr *frame, args []value) value {
		c := wgCounter(cellStruct(args[0]))
		n := int64((*c).(uint64)) + asInt64(args[1])
		if n < 0 {
			panic(targetPanic{runtimeErr("sync: negative WaitGroup counter")})
		}
		*c = uint64(n)
		return nil
	}
	t["(*sync.WaitGroup).Done"] = func(in *Interp, fr *frame, args []value) value {
		c := wgCounter(cellStruct(args[0]))
		n := int64((*c).(uint64)) - 1
		if n < 0 {
			panic(targetPanic{runtimeErr("sync: negative WaitGroup counter")})
		}
		*c = uint64(n)
		return nil
	}
	t["(*sync.WaitGroup).Wait"] = func(in *Interp, fr *frame, args []value) value {
		c := wgCounter(cellStruct(args[0]))
		in.sched.block(func() bool { return (*c).(uint64) == 0 }, "WaitGroup.Wait")
		return nil
	}
	// sync.Map: the model lives in field 0
	smap := func(v value) *omap {
		st := cellStruct(v)
		m, ok := st[0].(*omap)
		if !ok {
			m = newMap(types.NewInterfaceType(nil, nil))
			st[0] = m
		}
		return m
	}
	point := func(in *Interp) {
		if in.cfg.YieldOnSyncMap {
			in.sched.yield()
		}
	}
	t["(*sync.Map).Load"] = func(in *Interp, fr *frame, args []value) value {
		point(in)
		v, ok := smap(args[0]).lookup(in, args[1])
		if !ok {
			return tuple{iface{}, false}
		}
		return tuple{v, true}
	}
	t["(*sync.Map).Store"] = func(in *Interp, fr *frame, args []value) value {
		point(in)
		smap(args[0]).insert(in, args[1], args[2])
		return nil
	}
	t["(*sync.Map).LoadOrStore"] = func(in *Interp, fr *frame, args []value) value {
		point(in)
		m := smap(args[0])
		if v, ok := m.lookup(in, args[1]); ok {
			return tuple{v, true}
		}
		m.insert(in, args[1], args[2])
		return tuple{args[2], false}
	}
	t["(*sync.Map).LoadAndDelete"] = func(in *Interp, fr *frame, args []value) value {
		point(in)
		m := smap(args[0])
		if v, ok := m.lookup(in, args[1]); ok {
			m.delete(in, args[1])
			return tuple{v, true}
		}
		return tuple{iface{}, false}
	}
	t["(*sync.Map).Delete"] = func(in *Interp, fr *frame, args []value) value {
		point(in)
		smap(args[0]).delete(in, args[1])
		return nil
	}
	t["(*sync.Map).Range"] = func(in *Interp, fr *frame, args []value) value {
		point(in)
		m := smap(args[0])
		for _, p := range m.order(in.cfg.MapOrder) {
			if !m.live[p] {
				continue
			}
			r := in.call(fr, fr.callPos, args[1], []value{m.keys[p], m.vals[p]})
			if !in.branchV(r) {
				break
			}
		}
		return nil
	}

	// sync/atomic primitives on cells
	for _, ty := range []string{"Int32", "Int64", "Uint32", "Uint64", "Uintptr"} {
		ty := ty
		t["sync/atomic.Load"+ty] = func(in *Interp, fr *frame, args []value) value { return in.load(args[0]) }
		t["sync/atomic.Store"+ty] = func(in *Interp, fr *frame, args []value) value {
			in.store(args[0], args[1])
			return nil
		}
		t["sync/atomic.Add"+ty] = func(in *Interp, fr *frame, args []value) value {
			old := in.load(args[0])
			sig := fr.fn.Signature
			pt := sig.Params().At(1).Type()
			nv := in.binop(token.ADD, pt, pt, old, args[1])
			in.store(args[0], nv)
			return nv
		}
		t["sync/atomic.Swap"+ty] = func(in *Interp, fr *frame, args []value) value {
			old := in.load(args[0])
			in.store(args[0], args[1])
			return old
		}
		t["sync/atomic.CompareAndSwap"+ty] = func(in *Interp, fr *frame, args []value) value {
			old := in.load(args[0])
			pt := fr.fn.Signature.Params().At(1).Type()
			if in.branchV(equalsV(pt, old, args[1])) {
				in.store(args[0], args[2])
				return true
			}
			return false
		}
	}
	t["sync/atomic.LoadPointer"] = func(in *Interp, fr *frame, args []value) value { return in.load(args[0]) }
	t["sync/atomic.StorePointer"] = func(in *Interp, fr *frame, args []value) value {
		in.store(args[0], args[1])
		return nil
	}
	t["(*sync/atomic.Value).Load"] = func(in *Interp, fr *frame, args []value) value {
		return cellStruct(args[0])[0]
	}
	t["(*sync/atomic.Value).Store"] = func(in *Interp, fr *frame, args []value) value {
		cellStruct(args[0])[0] = args[1]
		return nil
	}
}

// ---- encoding/binary.Read / Write ----

func isBigEndian(order value) bool {
	i := order.(iface)
	return i.t != nil && types.TypeString(i.t, nil) == "encoding/binary.bigEndian"
}

func binSize(t types.Type) int {
	switch u := t.Underlying().(type) {
	case *types.Basic:
		switch u.Kind() {
		case types.Bool, types.Int8, types.Uint8:
			return 1
		case types.Int16, types.Uint16:
			return 2
		case types.Int32, types.Uint32, types.Float32:
			return 4
		case types.Int64, types.Uint64, types.Float64:
			return 8
		}
	case *types.Array:
		s := binSize(u.Elem())
		if s < 0 {
			return -1
		}
		return int(u.Len()) * s
	case *types.Struct:
		n := 0
		for i := 0; i < u.NumFields(); i++ {
			s := binSize(u.Field(i).Type())
			if s < 0 {
				return -1
			}
			n += s
		}
		return n
	}
	return -1
}

func scalarBytes(v value, n int, big bool) []value {
	out := make([]value, n)
	t := toTerm(v)
	if t.sort.K == sBool {
		t = mkIte(t, mkBV(8, 1), mkBV(8, 0))
	}
	if t.sort.K == sFP {
		t = mkFpToBV(t)
	}
	for i := 0; i < n; i++ {
		b := mkExtract(t, 8*i+7, 8*i)
		var bv value = b
		if b.isConst() {
			bv = uint8(b.cval)
		}
		if big {
			out[n-1-i] = bv
		} else {
			out[i] = bv
		}
	}
	return out
}

func binEncode(v value, t types.Type, big bool) []value {
	switch u := t.Underlying().(type) {
	case *types.Basic:
		return scalarBytes(v, binSize(t), big)
	case *types.Array:
		var out []value
		for _, e := range v.(array) {
			out = append(out, binEncode(e, u.Elem(), big)...)
		}
		return out
	case *types.Struct:
		var out []value
		for i, f := range v.(structure) {
			if u.Field(i).Name() == "_" {
				out = append(out, make([]value, binSize(u.Field(i).Type()))...)
				for k := range out {
					if out[k] == nil {
						out[k] = uint8(0)
					}
				}
				continue
			}
			out = append(out, binEncode(f, u.Field(i).Type(), big)...)
		}
		return out
	}
	panic("binEncode " + t.String())
}

func bytesToScalar(b []value, t *types.Basic, big bool) value {
	n := len(b)
	var r *Term
	for i := 0; i < n; i++ {
		var x value
		if big {
			x = b[i]
		} else {
			x = b[n-1-i]
		}
		bt := byteTerm(x)
		if r == nil {
			r = bt
		} else {
			r = mkConcat(r, bt)
		}
	}
	switch {
	case t.Kind() == types.Bool:
		return termOrBool(mkNot(mkEq(r, mkBV(8, 0))))
	case t.Info()&types.IsFloat != 0:
		ft := mkFpOfBV(r)
		if f, ok := fpConstVal(ft); ok {
			if t.Kind() == types.Float32 {
				return float32(f)
			}
			return f
		}
		return ft
	}
	return fromConst(t, r)
}

func binDecode(b []value, t types.Type, big bool) (value, []value) {
	switch u := t.Underlying().(type) {
	case *types.Basic:
		n := binSize(t)
		return bytesToScalar(b[:n], u, big), b[n:]
	case *types.Array:
		a := make(array, u.Len())
		for i := range a {
			a[i], b = binDecode(b, u.Elem(), big)
		}
		return a, b
	case *types.Struct:
		s := make(structure, u.NumFields())
		for i := range s {
			if u.Field(i).Name() == "_" {
				s[i] = zero(u.Field(i).Type())
				b = b[binSize(u.Field(i).Type()):]
				continue
			}
			s[i], b = binDecode(b, u.Field(i).Type(), big)
		}
		return s, b
	}
	panic("binDecode " + t.String())
}

// xz is modelled as the identity codec (DESIGN 2.5): NewWriter/NewReader wrap the
// underlying stream unchanged. Properties that depend on the compressed form are
// outside every claim.
func addXzIntrinsics() {
	t := intrinsicTable
	wrap := func(in *Interp, fr *frame, args []value) value {
		cell := value(structure{args[0]})
		return tuple{&cell, iface{}}
	}
	t["github.com/ulikunitz/xz.NewReader"] = wrap
	t["github.com/ulikunitz/xz.NewWriter"] = wrap
	inner := func(v value) iface { return (*v.(*value)).(structure)[0].(iface) }
	t["(*github.com/ulikunitz/xz.Reader).Read"] = func(in *Interp, fr *frame, args []value) value {
		r := inner(args[0])
		return in.call(fr, fr.callPos, in.methodByName(r.t, "Read"), []value{r.v, args[1]})
	}
	t["(*github.com/ulikunitz/xz.Writer).Write"] = func(in *Interp, fr *frame, args []value) value {
		w := inner(args[0])
		return in.call(fr, fr.callPos, in.methodByName(w.t, "Write"), []value{w.v, args[1]})
	}
	t["(*github.com/ulikunitz/xz.Writer).Close"] = func(in *Interp, fr *frame, args []value) value { return iface{} }
}

func addBinaryIntrinsics() {
	intrinsicTable["encoding/binary.Write"] = func(in *Interp, fr *frame, args []value) value {
		big := isBigEndian(args[1])
		data := args[2].(iface)
		t, v := data.t, data.v
		if p, ok := t.Underlying().(*types.Pointer); ok {
			t, v = p.Elem(), in.load(v)
		}
		var bs []value
		if sl, ok := t.Underlying().(*types.Slice); ok {
			for _, e := range v.([]value) {
				bs = append(bs, binEncode(e, sl.Elem(), big)...)
			}
		} else {
			if binSize(t) < 0 {
				return in.mkError("binary.Write: some values are not fixed-sized in type " + t.String())
			}
			bs = binEncode(v, t, big)
		}
		w := args[0].(iface)
		m := in.methodByName(w.t, "Write")
		r := in.call(fr, fr.callPos, m, []value{w.v, bs}).(tuple)
		return r[1]
	}
	intrinsicTable["encoding/binary.Read"] = func(in *Interp, fr *frame, args []value) value {
		big := isBigEndian(args[1])
		data := args[2].(iface)
		readFull := in.prog.ImportedPackage("io").Func("ReadFull")
		switch u := data.t.Underlying().(type) {
		case *types.Pointer:
			n := binSize(u.Elem())
			if n < 0 {
				return in.mkError("binary.Read: invalid type " + data.t.String())
			}
			buf := make([]value, n)
			for i := range buf {
				buf[i] = uint8(0)
			}
			r := in.call(fr, fr.callPos, readFull, []value{args[0], buf}).(tuple)
			if r[1].(iface).t != nil {
				return r[1]
			}
			v, _ := binDecode(buf, u.Elem(), big)
			in.store(data.v, v)
			return iface{}
		case *types.Slice:
			sl := data.v.([]value)
			es := binSize(u.Elem())
			buf := make([]value, es*len(sl))
			for i := range buf {
				buf[i] = uint8(0)
			}
			r := in.call(fr, fr.callPos, readFull, []value{args[0], buf}).(tuple)
			if r[1].(iface).t != nil {
				return r[1]
			}
			rest := buf
			for i := range sl {
				sl[i], rest = binDecode(rest, u.Elem(), big)
			}
			return iface{}
		}
		return in.mkError("binary.Read: invalid type " + data.t.String())
	}

	// ---- CRC modes ----
	crc := func(width int, poly uint64, upd bool) intrinsic {
		return func(in *Interp, fr *frame, args []value) value {
			mode := in.cfg.CRC
			if mode == "" || mode == "real" {
				return notHandled
			}
			// the abstraction is only used for the table it was proved for (H03a)
			var tab value
			if upd {
				tab = args[1]
			} else {
				tab = args[1]
			}
			tp, _ := tab.(*value)
			if tp == nil {
				return notHandled
			}
			var entries array
			switch tv := (*tp).(type) {
			case structure: // crc16.Table{entries, reversed, noXOR}
				entries, _ = tv[0].(array)
				if rev, _ := tv[1].(bool); rev {
					return notHandled
				}
				if nx, _ := tv[2].(bool); nx {
					return notHandled
				}
			case array: // crc32.Table
				entries = tv
			}
			if len(entries) != 256 || asUint64Any(entries[128]) != poly {
				return notHandled
			}
			var state *Term
			var data []value
			if upd {
				state = toTerm(args[0])
				data = args[2].([]value)
			} else {
				data = args[0].([]value)
				state = mkBV(width, 0)
			}
			// both libraries: crc = ^update(^crc, data)
			st := mkBvNot(state)
			for _, b := range data {
				bt := byteTerm(b)
				if mode == "uf" {
					st = mkUF(fmt.Sprintf("crcstep%d", width), bvSort(width), st, bt)
					continue
				}
				// linear form of one table step (exact: table[x] is GF(2)-linear in x; the
				// equality with the bitwise definition is lemma H03a_Linear):
				//   st' = (st >> 8) ^ XOR_i bit_i(low8(st) ^ b) * T[1<<i]
				x := mkBvBin(opBvXor, mkExtract(st, 7, 0), bt)
				acc := mkBvBin(opBvLshr, st, mkBV(width, 8))
				for k := 0; k < 8; k++ {
					bitk := mkExtract(x, k, k)
					acc = mkBvBin(opBvXor, acc, mkIte(mkEq(bitk, mkBV(1, 1)), mkBV(width, crcLin(width, poly, k)), mkBV(width, 0)))
				}
				st = acc
			}
			r := mkBvNot(st)
			if width == 16 {
				return fromConst(types.Typ[types.Uint16], r)
			}
			return fromConst(types.Typ[types.Uint32], r)
		}
	}
	intrinsicTable["github.com/howeyc/crc16.Checksum"] = crc(16, 0x8408, false)
	intrinsicTable["github.com/howeyc/crc16.Update"] = crc(16, 0x8408, true)
	intrinsicTable["hash/crc32.Checksum"] = crc(32, 0x82F63B78, false)
	intrinsicTable["hash/crc32.Update"] = crc(32, 0x82F63B78, true)
}

var _ = unsafe.Pointer(nil)

func asUint64Any(v value) uint64 {
	switch x := v.(type) {
	case uint16:
		return uint64(x)
	case uint32:
		return uint64(x)
	}
	return ^uint64(0)
}

// crcLin returns table[1<<k] of the reflected CRC with the given polynomial.
func crcLin(width int, poly uint64, k int) uint64 {
	c := uint64(1) << uint(k)
	for j := 0; j < 8; j++ {
		if c&1 == 1 {
			c = (c >> 1) ^ poly
		} else {
			c >>= 1
		}
	}
	return c & wmask(width)
}
