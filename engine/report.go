package main

// Aggregation of worker results, native replay of counterexamples and sampled
// paths against the real build, evidence file, verdict.

import (
	"encoding/json"
	"fmt"
	"os"
	"os/exec"
	"path/filepath"
	"regexp"
	"sort"
	"strings"
	"sync"
	"time"
)

type Case struct {
	ID      string            `json:"id"`
	Harness string            `json:"harness"`
	Scalars map[string]uint64 `json:"scalars"`
	Bytes   map[string][]byte `json:"bytes"`
}

type Outcome struct {
	ID           string              `json:"id"`
	Harness      string              `json:"harness"`
	FailedAssert string              `json:"failed_assert,omitempty"`
	Panic        string              `json:"panic,omitempty"`
	AssumeFailed bool                `json:"assume_failed,omitempty"`
	Timeout      bool                `json:"timeout,omitempty"`
	Reach        []string            `json:"reach"`
	Observed     map[string][]string `json:"observed"`
	AllocBytes   uint64              `json:"alloc_bytes"`
	Seconds      float64             `json:"seconds"`
	MissingInput []string            `json:"missing_input,omitempty"`
}

type ReplayFile struct {
	Property string     `json:"property"`
	Pkg      string     `json:"pkg"`
	Case     Case       `json:"case"`
	Expect   *Violation `json:"expect"`
}

type report struct {
	prop, tier  string
	seed        int64
	check       *CheckCfg
	sel         []*HarnessCfg
	outs        []*WorkerOut
	results     []*HarnessResult
	wall        float64
	machinery   []string // machinery failures (exit 2)
	replays     int
	replayOK    int
	mismatch    []string
	exploreSecs float64
	noOutcome   []string
	buildSecs   float64
}

func newReport(prop, tier string, seed int64, c *CheckCfg, sel []*HarnessCfg, outs []*WorkerOut) *report {
	r := &report{prop: prop, tier: tier, seed: seed, check: c, sel: sel, outs: outs}
	for i, wo := range outs {
		if wo == nil || wo.Error != "" || len(wo.Results) == 0 {
			msg := "no result"
			if wo != nil && wo.Error != "" {
				msg = wo.Error
			}
			r.machinery = append(r.machinery, fmt.Sprintf("harness %s: %s", sel[i].Name, msg))
			continue
		}
		for _, res := range wo.Results {
			res.Cfg = sel[i]
			r.results = append(r.results, res)
		}
	}
	return r
}

func pkgDirOf(pkgPath string) string {
	return filepath.Join(repoDir, strings.TrimPrefix(pkgPath, modPath+"/"))
}

var pkgClauseRe = regexp.MustCompile(`(?m)^package\s+(\w+)`)

func pkgNameOf(pkgPath string) string {
	rel := strings.TrimPrefix(pkgPath, modPath+"/")
	files, _ := filepath.Glob(filepath.Join(verifDir, "harness", rel, "*.go"))
	for _, f := range files {
		b, _ := os.ReadFile(f)
		if m := pkgClauseRe.FindSubmatch(b); m != nil {
			return string(m[1])
		}
	}
	return filepath.Base(pkgPath)
}

// buildReplayBinary compiles the native replay test binary for one package.
func buildReplayBinary(tmp, pkgPath string, harnesses []string) (string, error) {
	ov, err := overlayFiles()
	if err != nil {
		return "", err
	}
	var sb strings.Builder
	sb.WriteString("//go:build verif\n\npackage " + pkgNameOf(pkgPath) + "\n\nimport (\n\t\"testing\"\n\tzz \"" + verifPkg + "\"\n)\n\n")
	sb.WriteString("func TestZZVerifReplay(t *testing.T) {\n\tn, err := zz.RunFile(map[string]func(){\n")
	sort.Strings(harnesses)
	seenH := map[string]bool{}
	for _, h := range harnesses {
		if seenH[h] {
			continue
		}
		seenH[h] = true
		fmt.Fprintf(&sb, "\t\t%q: %s,\n", h, h)
	}
	sb.WriteString("\t})\n\tif err != nil {\n\t\tt.Fatal(err)\n\t}\n\tt.Logf(\"ran %d cases\", n)\n}\n")
	tag := strings.ReplaceAll(strings.TrimPrefix(pkgPath, modPath+"/"), "/", "_")
	testFile := filepath.Join(tmp, "replay_"+tag+"_test.go")
	if err := os.WriteFile(testFile, []byte(sb.String()), 0o644); err != nil {
		return "", err
	}
	ov[filepath.Join(pkgDirOf(pkgPath), "zz_verif_replay_test.go")] = testFile
	ovj, _ := json.Marshal(map[string]interface{}{"Replace": ov})
	ovFile := filepath.Join(tmp, "overlay_"+tag+".json")
	os.WriteFile(ovFile, ovj, 0o644)
	bin := filepath.Join(tmp, "replay_"+tag+".test")
	cmd := exec.Command("go", "test", "-c", "-tags", buildTag+",faketime", "-vet=off", "-overlay", ovFile, "-o", bin, pkgPath)
	cmd.Dir = repoDir
	cmd.Env = goEnv()
	out, err := cmd.CombinedOutput()
	if err != nil {
		return "", fmt.Errorf("go test -c failed: %v\n%s", err, out)
	}
	return bin, nil
}

func runReplayBinary(bin, tmp string, cases []Case, memLimitKB int, timeout time.Duration) ([]Outcome, string) {
	cf, _ := os.CreateTemp(tmp, "cases-*.json")
	b, _ := json.Marshal(cases)
	cf.Write(b)
	cf.Close()
	of := cf.Name() + ".out"
	// faketime freezes the clock, so the test binary's own timeout cannot fire on a busy loop: use timeout(1)
	sh := fmt.Sprintf("ulimit -v %d; exec timeout -s KILL %d %s -test.run '^TestZZVerifReplay$' -test.count=1 -test.timeout=0", memLimitKB, int(timeout.Seconds()), bin)
	cmd := exec.Command("bash", "-c", sh)
	cmd.Dir = os.TempDir()
	// two threads: under the faketime runtime the clock advances only when every P is idle, which takes long when
	// eight replay processes with 16 Ps each compete for the machine (a 10-minute virtual sleep then needs > 30 s)
	cmd.Env = append(os.Environ(), "VERIF_REPLAY="+cf.Name(), "VERIF_REPLAY_OUT="+of, "GOMAXPROCS=2")
	out, _ := cmd.CombinedOutput()
	var outs []Outcome
	if ob, err := os.ReadFile(of); err == nil {
		json.Unmarshal(ob, &outs)
	}
	return outs, string(out)
}

func sameStrings(a, b []string) bool {
	if len(a) != len(b) {
		return false
	}
	for i := range a {
		if a[i] != b[i] {
			return false
		}
	}
	return true
}

// confirms decides whether the native outcome reproduces violation v.
func confirms(v *Violation, o *Outcome, crashed bool, crashOut string, allocLimit uint64) (bool, string) {
	if o == nil {
		if crashed {
			switch v.Kind {
			case "panic", "alloc", "hang":
				return true, "native process died: " + firstLine(lastLines(crashOut, 3))
			}
		}
		return false, "no native outcome"
	}
	if o.AssumeFailed {
		return false, "native run rejected the inputs (assume failed)"
	}
	switch v.Kind {
	case "assert":
		if o.FailedAssert == v.Label {
			return true, "native run fails the same assertion"
		}
		if o.FailedAssert != "" {
			return false, "native run fails a different assertion: " + o.FailedAssert
		}
		if o.Panic != "" {
			return false, "native run panics instead: " + firstLine(o.Panic)
		}
		return false, "native run passes the assertion"
	case "panic":
		if o.Panic != "" {
			return true, "native run panics: " + firstLine(o.Panic)
		}
		if o.FailedAssert != "" {
			return false, "native run fails assertion " + o.FailedAssert + " instead of panicking"
		}
		return false, "native run does not panic"
	case "hang", "deadlock":
		if o.Timeout {
			return true, "native run does not terminate within the limit"
		}
		return false, "native run terminates"
	case "alloc":
		if o.AllocBytes > allocLimit || o.Panic != "" {
			return true, fmt.Sprintf("native run allocated %d bytes (panic=%q)", o.AllocBytes, firstLine(o.Panic))
		}
		return false, fmt.Sprintf("native run allocated only %d bytes", o.AllocBytes)
	}
	return false, "unknown kind"
}

func lastLines(s string, n int) string {
	ls := strings.Split(strings.TrimSpace(s), "\n")
	if len(ls) > n {
		ls = ls[len(ls)-n:]
	}
	return strings.Join(ls, " | ")
}

func (r *report) replayAll(tmp string) {
	byPkg := map[string][]*HarnessResult{}
	for _, res := range r.results {
		byPkg[res.Cfg.Pkg] = append(byPkg[res.Cfg.Pkg], res)
	}
	for pkg, ress := range byPkg {
		need := false
		var names []string
		for _, res := range ress {
			names = append(names, res.Name)
			if len(res.Samples) > 0 || len(res.Violations) > 0 || len(res.KnownHits) > 0 {
				need = true
			}
		}
		if !need {
			continue
		}
		tb := time.Now()
		bin, err := buildReplayBinary(tmp, pkg, names)
		r.buildSecs += time.Since(tb).Seconds()
		if err != nil {
			r.machinery = append(r.machinery, "native replay build failed for "+pkg+": "+err.Error())
			continue
		}
		// 1. sampled passing paths, one batch
		var cases []Case
		type ref struct {
			res *HarnessResult
			i   int
		}
		refs := map[string]ref{}
		for _, res := range ress {
			for i, s := range res.Samples {
				id := fmt.Sprintf("%s#%p#s%d", res.Name, res, i)
				cases = append(cases, Case{ID: id, Harness: res.Name, Scalars: s.Scalars, Bytes: s.Bytes})
				refs[id] = ref{res, i}
			}
		}
		if len(cases) > 0 {
			// one process per sampled path (eight at a time): under the faketime runtime the clock of a process only
			// moves forward, so paths that sleep for virtual minutes would shift the clock of the paths replayed after
			// them in the same process (bundles created at the frozen start instant would then be expired)
			got := map[string]*Outcome{}
			raw := ""
			{
				var mu sync.Mutex
				var wg sync.WaitGroup
				sem := make(chan struct{}, 8)
				for _, c := range cases {
					wg.Add(1)
					go func(c Case) {
						defer wg.Done()
						sem <- struct{}{}
						defer func() { <-sem }()
						o1, r1 := runReplayBinary(bin, tmp, []Case{c}, 8<<20, 30*time.Second)
						mu.Lock()
						defer mu.Unlock()
						if len(o1) > 0 {
							got[c.ID] = &o1[0]
						} else {
							raw = r1
							// keep the inputs of a native run that gave no outcome (it is repeated below)
							hdir := filepath.Join(verifDir, "replays", r.prop)
							os.MkdirAll(hdir, 0o755)
							hb, _ := json.MarshalIndent(ReplayFile{Property: r.prop, Pkg: pkg, Case: c, Expect: &Violation{Kind: "hang", Label: "native replay gave no outcome within 30 s"}}, "", " ")
							os.WriteFile(filepath.Join(hdir, fmt.Sprintf("nooutcome-%s-%d.json", c.Harness, len(r.noOutcome))), hb, 0o644)
							r.noOutcome = append(r.noOutcome, c.ID+": "+lastLines(r1, 2))
						}
					}(c)
				}
				wg.Wait()
			}
			// a native run that produced no outcome (e.g. a third-party background goroutine wedged under the
			// frozen clock) is repeated on its own before it counts as a disagreement
			for _, c := range cases {
				for try := 0; try < 2 && got[c.ID] == nil; try++ {
					o1, r1 := runReplayBinary(bin, tmp, []Case{c}, 8<<20, 90*time.Second)
					if len(o1) > 0 {
						got[c.ID] = &o1[0]
					} else {
						raw = r1
					}
				}
			}
			for _, c := range cases {
				rf := refs[c.ID]
				s := rf.res.Samples[rf.i]
				o := got[c.ID]
				r.replays++
				switch {
				case o == nil:
					r.mismatch = append(r.mismatch, fmt.Sprintf("%s: no native outcome (%s)", c.ID, lastLines(raw, 2)))
				case o.AssumeFailed:
					r.mismatch = append(r.mismatch, fmt.Sprintf("%s: native run rejects the model of a feasible path (assume failed)", c.ID))
				case o.FailedAssert != "" || o.Panic != "" || o.Timeout:
					// keep the inputs of the disagreeing path for `gosym replay`
					mdir := filepath.Join(verifDir, "replays", r.prop)
					os.MkdirAll(mdir, 0o755)
					mb, _ := json.MarshalIndent(ReplayFile{Property: r.prop, Pkg: pkg, Case: c, Expect: &Violation{Kind: "assert", Label: o.FailedAssert}}, "", " ")
					os.WriteFile(filepath.Join(mdir, fmt.Sprintf("mismatch-%s-%d.json", rf.res.Name, rf.i)), mb, 0o644)
					r.mismatch = append(r.mismatch, fmt.Sprintf("%s: engine passes this path, native run fails (assert=%q panic=%q timeout=%v)", c.ID, o.FailedAssert, firstLine(o.Panic), o.Timeout))
				case !sameStrings(s.Reach, o.Reach):
					r.mismatch = append(r.mismatch, fmt.Sprintf("%s: reach labels differ: engine %v native %v", c.ID, s.Reach, o.Reach))
				default:
					ok := true
					if s.Observed != nil {
						for k, ev := range s.Observed {
							if !sameStrings(ev, o.Observed[k]) {
								ok = false
								r.mismatch = append(r.mismatch, fmt.Sprintf("%s: observed %q differs: engine %v native %v", c.ID, k, ev, o.Observed[k]))
							}
						}
					}
					if ok {
						r.replayOK++
					}
				}
			}
		}
		// 2. violations and known findings, one process each
		for _, res := range ress {
			replayOne := func(v *Violation, idx int) {
				if v.Inconclusive {
					return
				}
				c := Case{ID: fmt.Sprintf("%s#v%d", res.Name, idx), Harness: res.Name, Scalars: v.Scalars, Bytes: v.Bytes}
				lim := 60 * time.Second
				if v.Kind != "hang" {
					lim = 3 * time.Minute // a run that is expected to terminate gets ample time
				}
				outs, raw := runReplayBinary(bin, tmp, []Case{c}, 6<<20, lim)
				var o *Outcome
				if len(outs) > 0 {
					o = &outs[0]
				}
				allocLimit := uint64(1<<20) + 64*uint64(totalBytes(v.Bytes)) + (256 << 10)
				ok, note := confirms(v, o, o == nil, raw, allocLimit)
				v.Confirmed, v.ReplayNote = ok, note
				r.replays++
				if ok {
					r.replayOK++
				}
			}
			for i := range res.Violations {
				replayOne(&res.Violations[i], i)
			}
			ki := 0
			for _, k := range sortedKeys(res.KnownHits) {
				replayOne(res.KnownHits[k], 1000+ki)
				ki++
			}
		}
	}
}

func totalBytes(m map[string][]byte) int {
	n := 0
	for _, b := range m {
		n += len(b)
	}
	return n
}

func (r *report) finish() int {
	exit := 0
	var lines []string
	viol := 0
	// violations
	replayDir := filepath.Join(verifDir, "replays", r.prop)
	for ri, res := range r.results {
		for i := range res.Violations {
			v := &res.Violations[i]
			switch {
			case v.Inconclusive:
				r.machinery = append(r.machinery, fmt.Sprintf("%s: obligation %q undecided (%s)", res.Name, v.Label, v.Detail))
			case v.Confirmed:
				os.MkdirAll(replayDir, 0o755)
				f := filepath.Join(replayDir, fmt.Sprintf("%s-%d-%d.json", res.Name, ri, i))
				rf := ReplayFile{Property: r.prop, Pkg: res.Cfg.Pkg, Case: Case{ID: res.Name, Harness: res.Name, Scalars: v.Scalars, Bytes: v.Bytes}, Expect: v}
				b, _ := json.MarshalIndent(rf, "", " ")
				os.WriteFile(f, b, 0o644)
				v.ReplayFile = f
				lines = append(lines, fmt.Sprintf("VIOLATION property=%s replay=%s", r.prop, f))
				lines = append(lines, fmt.Sprintf("  harness=%s kind=%s label=%q: %s", res.Name, v.Kind, v.Label, v.ReplayNote))
				viol++
				exit = 1
			default:
				r.mismatch = append(r.mismatch, fmt.Sprintf("%s: counterexample for %q (%s) does not reproduce natively: %s", res.Name, v.Label, v.Kind, v.ReplayNote))
			}
		}
		seenKF := map[string]bool{}
		for _, k := range sortedKeys(res.KnownHits) {
			v := res.KnownHits[k]
			if seenKF[v.Known] {
				continue
			}
			seenKF[v.Known] = true
			kf := knownFindings[v.Known]
			what := ""
			if kf != nil {
				what = kf.What
			}
			note := ""
			if !v.Confirmed {
				note = " (native replay: " + v.ReplayNote + ")"
			}
			lines = append(lines, fmt.Sprintf("KNOWN-FINDING: property=%s %s %s [harness %s, %s]%s", r.prop, v.Known, what, res.Name, v.Label, note))
		}
	}
	// vacuity
	for _, res := range r.results {
		if res.Paths == 0 {
			r.machinery = append(r.machinery, fmt.Sprintf("%s: vacuous — no feasible path reaches the end of the harness (assume-cut %d, unsupported %d, infeasible %d)", res.Name, res.AssumeCut, res.Unsupported, res.Infeasible))
		}
		for _, l := range res.Cfg.ExpectReach {
			if res.Reach[l] == 0 {
				r.machinery = append(r.machinery, fmt.Sprintf("%s: vacuous — reach label %q never reached", res.Name, l))
			}
		}
		if res.Unsupported > 0 {
			r.machinery = append(r.machinery, fmt.Sprintf("%s: %d paths ended in code the engine cannot encode: %v", res.Name, res.Unsupported, sortedKeys(res.UnsupportedMsgs)))
		}
		if res.Inconclusive > 0 {
			r.machinery = append(r.machinery, fmt.Sprintf("%s: %d paths contain a branch the solvers could not decide", res.Name, res.Inconclusive))
		}
		if res.PathLimitHit && res.Cfg.MaxPaths == 0 {
			// a run cut short by the clock explored an unknown part of its bound: never a pass
			r.machinery = append(r.machinery, fmt.Sprintf("%s: exploration did not finish within the time limit (%d paths done)", res.Name, res.Paths))
		}
	}
	for _, m := range r.mismatch {
		lines = append(lines, "ENGINE-MISMATCH: "+m)
	}
	for _, m := range r.machinery {
		lines = append(lines, "MACHINERY: "+m)
	}
	if exit == 0 && (len(r.mismatch) > 0 || len(r.machinery) > 0) {
		exit = 2
	}
	r.writeEvidence(viol)
	// summary
	var paths, obl int
	var instrs int64
	for _, res := range r.results {
		paths += res.Paths + res.PanicPaths
		instrs += res.Instrs
		obl += res.Obligations
	}
	for _, l := range lines {
		fmt.Println(l)
	}
	q := 0
	for _, wo := range r.outs {
		if wo != nil {
			q += wo.Stats.Queries
		}
	}
	fmt.Printf("%s %s: %d harnesses, %d paths, %d SSA instructions, %d obligations, %d solver queries, %d/%d native replays agree, %.1fs (explore %.0fs, replay build %.0fs) => exit %d\n",
		r.prop, r.tier, len(r.results), paths, instrs, obl, q, r.replayOK, r.replays, r.wall, r.exploreSecs, r.buildSecs, exit)
	return exit
}

func (r *report) writeEvidence(viol int) {
	type hsum struct {
		Harness      string         `json:"harness"`
		Package      string         `json:"package"`
		Paths        int            `json:"feasible_paths_completed"`
		PanicPaths   int            `json:"panicking_paths"`
		AssumeCut    int            `json:"paths_cut_by_assume"`
		Infeasible   int            `json:"infeasible_paths"`
		Unsupported  int            `json:"unsupported_paths"`
		Unwind       int            `json:"unwind_exceeded"`
		Obligations  int            `json:"obligations"`
		Proved       int            `json:"obligations_unsat"`
		Instrs       int64          `json:"ssa_instructions"`
		Decisions    int            `json:"decisions"`
		CapHits      int            `json:"enumeration_cap_hits"`
		Reach        map[string]int `json:"reach"`
		Notes        []string       `json:"notes,omitempty"`
		Violations   int            `json:"violations"`
		Known        []string       `json:"known_findings_hit,omitempty"`
		Wall         float64        `json:"wall_s"`
		CRC          string         `json:"crc_mode,omitempty"`
		Budget       int64          `json:"instruction_budget_per_path"`
		EnumCap      int            `json:"enumeration_cap"`
		PathLimitHit bool           `json:"path_limit_hit"`
		Note         string         `json:"bound,omitempty"`
	}
	var hs []hsum
	funcs := map[string]int64{}
	var states int
	var transitions int64
	var samples []interface{}
	var reduced []string
	for _, res := range r.results {
		h := hsum{Harness: res.Name, Package: res.Cfg.Pkg, Paths: res.Paths, PanicPaths: res.PanicPaths, AssumeCut: res.AssumeCut, Infeasible: res.Infeasible,
			Unsupported: res.Unsupported, Unwind: res.Unwind, Obligations: res.Obligations, Proved: res.Proved, Instrs: res.Instrs, Decisions: res.Decisions,
			CapHits: res.CapHits, Reach: res.Reach, Notes: res.Notes, Violations: len(res.Violations), Wall: res.Wall, CRC: res.Cfg.CRC, Budget: res.Cfg.Budget,
			EnumCap: res.Cfg.EnumCap, PathLimitHit: res.PathLimitHit, Note: res.Cfg.Note}
		ks := map[string]bool{}
		for _, v := range res.KnownHits {
			ks[v.Known] = true
		}
		h.Known = sortedKeys(ks)
		hs = append(hs, h)
		states += res.Paths + res.PanicPaths
		transitions += res.Instrs
		for f, n := range res.FuncInstrs {
			funcs[f] += n
		}
		for _, s := range res.Samples {
			samples = append(samples, s)
		}
		for _, v := range res.Violations {
			samples = append(samples, map[string]interface{}{"violation": v})
		}
		if res.PathLimitHit || res.CapHits > 0 {
			reduced = append(reduced, res.Name)
		}
	}
	if len(samples) == 0 {
		samples = append(samples, map[string]string{"note": "no completed path to sample"})
	}
	// functions of the repository (and vendored libraries) that were executed symbolically
	type fc struct {
		F string `json:"function"`
		N int64  `json:"calls"`
	}
	var fl []fc
	for f, n := range funcs {
		if strings.Contains(f, "dtn7") || strings.Contains(f, "crc16") || strings.Contains(f, "dijkstra") || strings.Contains(f, "cboring") {
			if !strings.Contains(f, "zzverif") {
				fl = append(fl, fc{f, n})
			}
		}
	}
	sort.Slice(fl, func(i, j int) bool { return fl[i].N > fl[j].N || fl[i].N == fl[j].N && fl[i].F < fl[j].F })
	nfuncs := len(fl)
	if len(fl) > 60 {
		fl = fl[:60]
	}
	stats := SolverStats{Seconds: map[string]float64{}}
	var load, initS float64
	for _, wo := range r.outs {
		if wo == nil {
			continue
		}
		stats.Queries += wo.Stats.Queries
		stats.Sat += wo.Stats.Sat
		stats.Unsat += wo.Stats.Unsat
		stats.Unknown += wo.Stats.Unknown
		stats.Errors += wo.Stats.Errors
		stats.FallbackQueries += wo.Stats.FallbackQueries
		stats.FallbackDecided += wo.Stats.FallbackDecided
		stats.CrossChecked += wo.Stats.CrossChecked
		stats.CrossDisagree += wo.Stats.CrossDisagree
		for k, v := range wo.Stats.Seconds {
			stats.Seconds[k] += v
		}
		load += wo.LoadSecs
		initS += wo.InitSecs
	}
	if states == 0 {
		states = 0
	}
	ev := map[string]interface{}{
		"property_id": r.prop,
		"tier":        r.tier,
		"seed":        r.seed,
		"level":       "model_checking",
		"wall_s":      r.wall,
		"violations":  viol,
		"coverage": map[string]interface{}{
			"states":                        states,
			"transitions":                   transitions,
			"traces_validated_against_impl": r.replayOK,
			"samples":                       samples,
			"exhaustive":                    false,
			"explanation":                   "bounded symbolic execution of the go/ssa form of /repo's current working tree; states = feasible paths completed (each stands for every input satisfying its path condition), transitions = SSA instructions executed symbolically; every assertion/implicit obligation on every path was discharged by an SMT query (unsat) unless listed as violation",
			"harnesses":                     hs,
			"functions_encoded_total":       nfuncs,
			"functions_encoded_top":         fl,
			"queries":                       map[string]int{"total": stats.Queries, "sat": stats.Sat, "unsat": stats.Unsat, "unknown": stats.Unknown, "errors": stats.Errors, "fallback_asked": stats.FallbackQueries, "fallback_decided": stats.FallbackDecided, "cross_checked": stats.CrossChecked, "cross_disagree": stats.CrossDisagree},
			"solver_seconds":                stats.Seconds,
			"front_end_seconds":             load,
			"init_seconds":                  initS,
			"native_replays":                r.replays,
			"native_replays_agree":          r.replayOK,
			"engine_mismatches":             r.mismatch,
			"native_replays_repeated":       r.noOutcome,
			"machinery_failures":            r.machinery,
			"reduced_bounds":                reduced,
		},
		"assumptions": evidenceAssumptions(r),
	}
	os.MkdirAll(filepath.Join(verifDir, "evidence"), 0o755)
	b, _ := json.MarshalIndent(ev, "", " ")
	os.WriteFile(filepath.Join(verifDir, "evidence", r.prop+".json"), b, 0o644)
}

func evidenceAssumptions(r *report) []string {
	a := []string{
		"z3 5.1.0 (primary; cvc5 1.0.3 --solve-bv-as-int=sum and z3 4.8.12 as fall-backs for unknown/timeout) decide the queries correctly",
		"the gosym interpreter implements go/ssa semantics faithfully (cross-checked on every run by replaying sampled paths and every counterexample against the native build)",
		"environment models as listed in DESIGN.md 2.5 (logging = no-op, fmt/regexp/reflect/encoding-binary/sync/time models)",
		"claims hold only within the bounds of each harness (input sizes, enumeration caps, instruction budget) recorded above",
	}
	for _, res := range r.results {
		if res.Cfg.Note != "" {
			a = append(a, res.Name+": "+res.Cfg.Note)
		}
	}
	return a
}

func cmdReplay(args []string) int {
	if len(args) < 1 {
		fatalf("usage: gosym replay <file>")
	}
	b, err := os.ReadFile(args[0])
	if err != nil {
		fatalf("%v", err)
	}
	var rf ReplayFile
	if err := json.Unmarshal(b, &rf); err != nil {
		fatalf("%v", err)
	}
	tmp, _ := os.MkdirTemp("", "gosym-replay-")
	if os.Getenv("GOSYM_KEEP") != "" {
		fmt.Fprintf(os.Stderr, "keeping %s\n", tmp)
	} else {
		defer os.RemoveAll(tmp)
	}
	bin, err := buildReplayBinary(tmp, rf.Pkg, []string{rf.Case.Harness})
	if err != nil {
		fatalf("%v", err)
	}
	outs, raw := runReplayBinary(bin, tmp, []Case{rf.Case}, 6<<20, 3*time.Minute)
	var o *Outcome
	if len(outs) > 0 {
		o = &outs[0]
	}
	ok, note := confirms(rf.Expect, o, o == nil, raw, uint64(1<<20)+64*uint64(totalBytes(rf.Case.Bytes))+(256<<10))
	fmt.Printf("replay of %s (%s %q): %s\n", rf.Case.Harness, rf.Expect.Kind, rf.Expect.Label, note)
	if o != nil {
		ob, _ := json.MarshalIndent(o, "", " ")
		fmt.Println(string(ob))
	}
	if ok {
		fmt.Printf("VIOLATION property=%s replay=%s\n", rf.Property, args[0])
		return 1
	}
	return 0
}
