package main

// Solver layer: one persistent SMT-LIB2 process (z3 -in) with push/pop, term
// definitions tracked per assertion level, a mirror of the assertion stack so
// that a query can be re-asked one-shot to another back end (cvc5 with
// --solve-bv-as-int=sum, z3 5.1.0), and model extraction.

import (
	"bufio"
	"bytes"
	"fmt"
	"io"
	"os"
	"os/exec"
	"sort"
	"strconv"
	"strings"
	"time"
)

var primarySolver = func() string {
	if v := os.Getenv("GOSYM_SOLVER"); v != "" {
		return v
	}
	return "z3-new"
}()

type Result int

const (
	resUnsat Result = iota
	resSat
	resUnknown
)

func (r Result) String() string { return [...]string{"unsat", "sat", "unknown"}[r] }

type SolverStats struct {
	Queries, Sat, Unsat, Unknown, Errors int
	FallbackQueries, FallbackDecided     int
	CrossChecked, CrossDisagree          int
	SentBytes                            int64
	Seconds                              map[string]float64
}

type Solver struct {
	cmd       *exec.Cmd
	in        io.WriteCloser
	out       *bufio.Reader
	lines     chan string
	preferCvc5  bool
	modelCostly bool // get-value is slow on this harness: skip optional model fetches
	level     int
	defLevel  map[int]int // term id -> level at which it is defined/declared
	defStack  [][]int
	ufLevel   map[string]int
	ufStack   [][]string
	asserts   [][]*Term // mirror
	timeoutMs int
	stats     *SolverStats
	logw      io.Writer
	crossAll  bool // re-ask every verdict query to z3-new
}

func newSolver(timeoutMs int, stats *SolverStats) *Solver {
	s := &Solver{timeoutMs: timeoutMs, stats: stats}
	if stats.Seconds == nil {
		stats.Seconds = map[string]float64{}
	}
	s.start()
	return s
}

func (s *Solver) start() {
	cmd := exec.Command(primarySolver, "-in")
	in, _ := cmd.StdinPipe()
	out, _ := cmd.StdoutPipe()
	cmd.Stderr = os.Stderr
	if err := cmd.Start(); err != nil {
		fatalf("cannot start %s: %v", primarySolver, err)
	}
	s.cmd, s.in, s.out = cmd, in, bufio.NewReaderSize(out, 1<<16)
	lines := make(chan string, 64)
	s.lines = lines
	rd := s.out
	go func() {
		for {
			line, err := rd.ReadString('\n')
			if err != nil {
				lines <- "(error \"solver died: " + err.Error() + "\")"
				close(lines)
				return
			}
			lines <- strings.TrimSpace(line)
		}
	}()
	s.level = 0
	s.defLevel = map[int]int{}
	s.defStack = [][]int{nil}
	s.ufLevel = map[string]int{}
	s.ufStack = [][]string{nil}
	s.asserts = [][]*Term{nil}
	s.send(fmt.Sprintf("(set-option :timeout %d)", s.timeoutMs))
}

func (s *Solver) close() {
	if s.cmd != nil {
		s.in.Close()
		s.cmd.Process.Kill()
		s.cmd.Wait()
		s.cmd = nil
	}
}

// reset drops everything (used between harnesses).
func (s *Solver) reset() {
	s.close()
	s.start()
}

func (s *Solver) send(l string) {
	if s.logw != nil {
		fmt.Fprintln(s.logw, l)
	}
	t0 := time.Now()
	io.WriteString(s.in, l)
	io.WriteString(s.in, "\n")
	s.stats.Seconds["z3-send"] += time.Since(t0).Seconds()
	s.stats.SentBytes += int64(len(l) + 1)
}

func (s *Solver) push() {
	s.level++
	s.defStack = append(s.defStack, nil)
	s.ufStack = append(s.ufStack, nil)
	s.asserts = append(s.asserts, nil)
	s.send("(push 1)")
}

func (s *Solver) pop(n int) {
	if n <= 0 {
		return
	}
	if n > s.level {
		panic("solver pop below 0")
	}
	for i := 0; i < n; i++ {
		for _, id := range s.defStack[s.level] {
			delete(s.defLevel, id)
		}
		for _, u := range s.ufStack[s.level] {
			delete(s.ufLevel, u)
		}
		s.defStack = s.defStack[:s.level]
		s.ufStack = s.ufStack[:s.level]
		s.asserts = s.asserts[:s.level]
		s.level--
	}
	s.send(fmt.Sprintf("(pop %d)", n))
}

func (s *Solver) emit(t *Term) {
	if t.op == opConst {
		return
	}
	if _, ok := s.defLevel[t.id]; ok {
		return
	}
	for _, a := range t.args {
		s.emit(a)
	}
	switch t.op {
	case opVar:
		s.send(fmt.Sprintf("(declare-const %s %s)", t.name, t.sort))
	case opFpToBV:
		s.send(fmt.Sprintf("(declare-const t!%d %s)", t.id, t.sort))
		eb, sb := 11, 53
		if t.sort.W == 32 {
			eb, sb = 8, 24
		}
		s.send(fmt.Sprintf("(assert (= ((_ to_fp %d %d) t!%d) %s))", eb, sb, t.id, t.args[0].ref()))
	case opUF:
		if _, ok := s.ufLevel[t.name]; !ok {
			s.send(tt.ufs[t.name])
			s.ufLevel[t.name] = s.level
			s.ufStack[s.level] = append(s.ufStack[s.level], t.name)
		}
		fallthrough
	default:
		s.send(fmt.Sprintf("(define-fun t!%d () %s %s)", t.id, t.sort, t.body()))
	}
	s.defLevel[t.id] = s.level
	s.defStack[s.level] = append(s.defStack[s.level], t.id)
}

func (s *Solver) assert(t *Term) {
	s.emit(t)
	s.send("(assert " + t.ref() + ")")
	s.asserts[s.level] = append(s.asserts[s.level], t)
}

// readLine waits for the next output line; a solver that ignores its own
// timeout is killed and restarted with the same assertion stack (the query
// then counts as unknown).
func (s *Solver) readLine() string {
	limit := time.Duration(s.timeoutMs)*time.Millisecond + 5*time.Second
	select {
	case l, ok := <-s.lines:
		if !ok {
			return "(error \"solver died\")"
		}
		return l
	case <-time.After(limit):
		s.restartWithStack()
		return "timeout"
	}
}

func (s *Solver) restartWithStack() {
	saved := s.asserts
	s.close()
	s.start()
	for lvl, as := range saved {
		if lvl > 0 {
			s.push()
		}
		for _, t := range as {
			s.assert(t)
		}
	}
}

// check asks for satisfiability of the current stack.
func (s *Solver) check() Result {
	if s.preferCvc5 {
		// division/remainder by constants: cvc5's integer encoding first
		if r := s.oneShot("cvc5"); r != resUnknown {
			s.stats.Queries++
			s.stats.FallbackDecided++
			if r == resSat {
				s.stats.Sat++
			} else {
				s.stats.Unsat++
			}
			return r
		}
	}
	t0 := time.Now()
	s.send("(check-sat)")
	r := resUnknown
	hadErr := false
	for {
		l := s.readLine()
		if l == "" {
			continue
		}
		switch {
		case l == "sat":
			r = resSat
		case l == "unsat":
			r = resUnsat
		case l == "unknown" || l == "timeout":
			r = resUnknown
		case strings.HasPrefix(l, "(error"):
			s.stats.Errors++
			hadErr = true
			fmt.Fprintln(os.Stderr, "SOLVER-ERROR:", l)
			if strings.Contains(l, "solver died") {
				s.stats.Unknown++
				return resUnknown
			}
			continue // an answer line still follows; it is not trusted
		default:
			continue
		}
		break
	}
	if hadErr {
		r = resUnknown
	}
	s.stats.Queries++
	s.stats.Seconds[primarySolver] += time.Since(t0).Seconds()
	if d := os.Getenv("GOSYM_SLOWDIR"); d != "" && time.Since(t0) > 2*time.Second {
		os.WriteFile(fmt.Sprintf("%s/slow-%d-%s.smt2", d, s.stats.Queries, r), []byte(s.script(nil)), 0o644)
	}
	if r == resUnknown {
		// portfolio: cvc5 with bv-as-int, then z3-new
		s.stats.FallbackQueries++
		if r2 := s.oneShot("cvc5"); r2 != resUnknown {
			s.stats.FallbackDecided++
			r = r2
		} else if r2 := s.oneShot(otherZ3()); r2 != resUnknown {
			s.stats.FallbackDecided++
			r = r2
		}
	} else if s.crossAll {
		s.stats.CrossChecked++
		if r2 := s.oneShot(otherZ3()); r2 != resUnknown && r2 != r {
			s.stats.CrossDisagree++
			fmt.Fprintf(os.Stderr, "SOLVER-DISAGREE: z3 %v vs z3-new %v\n", r, r2)
			r = resUnknown
		}
	}
	switch r {
	case resSat:
		s.stats.Sat++
	case resUnsat:
		s.stats.Unsat++
	default:
		s.stats.Unknown++
	}
	return r
}

// lastFallbackModel holds the model of the last sat answer obtained from a
// fallback back end (the persistent z3 cannot give one then).
var lastFallbackModel Model

// script renders the current stack as a standalone SMT-LIB2 script.
func (s *Solver) script(getModel []string) string {
	var sb bytes.Buffer
	done := map[int]bool{}
	ufs := map[string]bool{}
	var side []string
	var emit func(t *Term)
	emit = func(t *Term) {
		if t.op == opConst || done[t.id] {
			return
		}
		done[t.id] = true
		for _, a := range t.args {
			emit(a)
		}
		switch t.op {
		case opVar:
			fmt.Fprintf(&sb, "(declare-const %s %s)\n", t.name, t.sort)
		case opFpToBV:
			fmt.Fprintf(&sb, "(declare-const t!%d %s)\n", t.id, t.sort)
			eb, sbits := 11, 53
			if t.sort.W == 32 {
				eb, sbits = 8, 24
			}
			side = append(side, fmt.Sprintf("(assert (= ((_ to_fp %d %d) t!%d) %s))", eb, sbits, t.id, t.args[0].ref()))
		case opUF:
			if !ufs[t.name] {
				ufs[t.name] = true
				sb.WriteString(tt.ufs[t.name] + "\n")
			}
			fallthrough
		default:
			fmt.Fprintf(&sb, "(define-fun t!%d () %s %s)\n", t.id, t.sort, t.body())
		}
	}
	var as []string
	for _, lvl := range s.asserts {
		for _, t := range lvl {
			emit(t)
			as = append(as, "(assert "+t.ref()+")")
		}
	}
	// make sure requested model variables are declared even if unconstrained
	for _, l := range side {
		sb.WriteString(l + "\n")
	}
	for _, a := range as {
		sb.WriteString(a + "\n")
	}
	sb.WriteString("(check-sat)\n")
	if len(getModel) > 0 {
		sb.WriteString("(get-value (" + strings.Join(getModel, " ") + "))\n")
	}
	return sb.String()
}

func (s *Solver) declaredVars() []string {
	seen := map[*Term]bool{}
	out := map[string]Sort{}
	for _, lvl := range s.asserts {
		for _, t := range lvl {
			t.vars(seen, out)
		}
	}
	var names []string
	for n := range out {
		names = append(names, n)
	}
	sort.Strings(names)
	return names
}

func otherZ3() string {
	if primarySolver == "z3" {
		return "z3-new"
	}
	return "z3"
}

func (s *Solver) oneShot(which string) Result {
	t0 := time.Now()
	defer func() { s.stats.Seconds[which] += time.Since(t0).Seconds() }()
	vars := s.declaredVars()
	script := s.script(vars)
	var cmd *exec.Cmd
	secs := s.timeoutMs/1000 + 1
	switch which {
	case "cvc5":
		script = "(set-logic ALL)\n(set-option :produce-models true)\n" + script
		cmd = exec.Command("cvc5", "--lang=smt2", "--solve-bv-as-int=sum", fmt.Sprintf("--tlimit=%d", secs*1000))
		if strings.Contains(script, "FloatingPoint") {
			cmd = exec.Command("cvc5", "--lang=smt2", fmt.Sprintf("--tlimit=%d", secs*1000))
		}
	case "z3-new", "z3":
		cmd = exec.Command(which, "-in", fmt.Sprintf("-T:%d", secs))
	}
	cmd.Stdin = strings.NewReader(script)
	outb, _ := cmd.Output()
	out := string(outb)
	// an error reported before the verdict makes the answer untrustworthy; the
	// "(error" that get-value prints after an unsat verdict is expected.
	var verdict, rest string
	for i, l := range strings.Split(out, "\n") {
		l = strings.TrimSpace(l)
		if l == "" {
			continue
		}
		if strings.HasPrefix(l, "(error") {
			return resUnknown
		}
		if l == "sat" || l == "unsat" || l == "unknown" || l == "timeout" {
			verdict = l
			rest = strings.Join(strings.Split(out, "\n")[i+1:], "\n")
			break
		}
	}
	switch verdict {
	case "unsat":
		return resUnsat
	case "sat":
		lastFallbackModel = nil
		if !strings.Contains(rest, "(error") && strings.TrimSpace(rest) != "" {
			lastFallbackModel = parseModel(rest)
		}
		return resSat
	}
	return resUnknown
}

// model returns values for all variables occurring in the asserted stack.
// Must be called right after a sat answer.
func (s *Solver) model() Model {
	if lastFallbackModel != nil {
		m := lastFallbackModel
		lastFallbackModel = nil
		return m
	}
	vars := s.declaredVars()
	if len(vars) == 0 {
		return Model{}
	}
	t0 := time.Now()
	defer func() {
		d := time.Since(t0)
		s.stats.Seconds["z3-model"] += d.Seconds()
		if d > 50*time.Millisecond {
			s.modelCostly = true
		}
	}()
	s.send("(get-value (" + strings.Join(vars, " ") + "))")
	var sb strings.Builder
	depth := 0
	for {
		l := s.readLine()
		if strings.HasPrefix(l, "(error") {
			s.stats.Errors++
			fmt.Fprintln(os.Stderr, "SOLVER-ERROR:", l)
			return Model{}
		}
		sb.WriteString(l)
		sb.WriteByte(' ')
		depth += strings.Count(l, "(") - strings.Count(l, ")")
		if depth <= 0 && strings.TrimSpace(sb.String()) != "" {
			break
		}
	}
	return parseModel(sb.String())
}

// parseModel parses "((name value) (name value) ...)" with BV/Bool values.
func parseModel(s string) Model {
	m := Model{}
	toks := tokenize(s)
	// expect ( ( name val ) ... )
	i := 0
	next := func() string {
		if i < len(toks) {
			i++
			return toks[i-1]
		}
		return ""
	}
	if next() != "(" {
		return m
	}
	for i < len(toks) {
		t := next()
		if t == ")" {
			break
		}
		if t != "(" {
			continue
		}
		name := next()
		v := next()
		var val uint64
		switch {
		case v == "true":
			val = 1
		case v == "false":
			val = 0
		case strings.HasPrefix(v, "#x"):
			val, _ = strconv.ParseUint(v[2:], 16, 64)
		case strings.HasPrefix(v, "#b"):
			val, _ = strconv.ParseUint(v[2:], 2, 64)
		case v == "(":
			// (_ bvN W)
			if next() == "_" {
				bv := next()
				next()
				next() // )
				val, _ = strconv.ParseUint(strings.TrimPrefix(bv, "bv"), 10, 64)
			}
		}
		m[name] = val
		// skip to closing paren of this pair
		for i < len(toks) && toks[i] != ")" {
			i++
		}
		i++
	}
	return m
}

func tokenize(s string) []string {
	var toks []string
	cur := strings.Builder{}
	flush := func() {
		if cur.Len() > 0 {
			toks = append(toks, cur.String())
			cur.Reset()
		}
	}
	for _, r := range s {
		switch r {
		case '(', ')':
			flush()
			toks = append(toks, string(r))
		case ' ', '\n', '\t', '\r':
			flush()
		default:
			cur.WriteRune(r)
		}
	}
	flush()
	return toks
}
