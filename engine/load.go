package main

// Front end: load /repo's current working tree (plus the harness overlay) with
// go/packages, build SSA, run package initialisers, snapshot mutable globals.

import (
	"fmt"
	"go/token"
	"go/types"
	"os"
	"path/filepath"
	"sort"
	"strings"
	"time"

	"golang.org/x/tools/go/packages"
	"golang.org/x/tools/go/ssa"
	"golang.org/x/tools/go/ssa/ssautil"
)

const (
	modPath  = "github.com/dtn7/dtn7-go"
	buildTag = "verif"
)

// The registered checks run against /repo with the machinery in /verif. GOSYM_REPO / GOSYM_VERIF exist for
// background exploration on snapshots (`vp run --with-repo`), never for registered evidence.
var (
	repoDir  = envOr("GOSYM_REPO", "/repo")
	verifDir = envOr("GOSYM_VERIF", "/verif")
)

func envOr(k, def string) string {
	if v := os.Getenv(k); v != "" {
		return v
	}
	return def
}

func fatalf(f string, a ...interface{}) {
	fmt.Fprintf(os.Stderr, "gosym: "+f+"\n", a...)
	os.Exit(2)
}

// overlayFiles maps virtual paths under /repo to real files under /verif.
func overlayFiles() (map[string]string, error) {
	ov := map[string]string{}
	api, _ := filepath.Glob(filepath.Join(verifDir, "verifapi", "*.go"))
	for _, f := range api {
		ov[filepath.Join(repoDir, "pkg", "zzverif", filepath.Base(f))] = f
	}
	root := filepath.Join(verifDir, "harness")
	err := filepath.Walk(root, func(p string, info os.FileInfo, err error) error {
		if err != nil {
			return err
		}
		if info.IsDir() || !strings.HasSuffix(p, ".go") {
			return nil
		}
		rel, _ := filepath.Rel(root, p)
		dir, base := filepath.Split(rel)
		ov[filepath.Join(repoDir, dir, "zz_verif_"+base)] = p
		return nil
	})
	return ov, err
}

func goEnv() []string {
	return append(os.Environ(), "GOFLAGS=-mod=mod", "GOPROXY=off", "GOSUMDB=off", "GOTOOLCHAIN=local", "CGO_ENABLED=0")
}

type Program struct {
	prog     *ssa.Program
	pkgs     map[string]*ssa.Package
	overlay  map[string]string
	loadSecs float64
}

func loadProgram(pkgPaths []string) *Program {
	if os.Getenv("GOSYM_LOADER") != "packages" {
		return loadProgramLean(pkgPaths)
	}
	// reference front end: the whole dependency closure from source through go/packages
	t0 := time.Now()
	ov, err := overlayFiles()
	if err != nil {
		fatalf("overlay: %v", err)
	}
	overlay := map[string][]byte{}
	for virt, real := range ov {
		b, err := os.ReadFile(real)
		if err != nil {
			fatalf("overlay read: %v", err)
		}
		overlay[virt] = b
	}
	cfg := &packages.Config{
		Mode:       packages.LoadAllSyntax,
		Dir:        repoDir,
		Env:        goEnv(),
		Overlay:    overlay,
		BuildFlags: []string{"-tags=" + buildTag},
	}
	pats := append([]string{}, pkgPaths...)
	pats = append(pats, verifPkg)
	if os.Getenv("GOSYM_FULLLOAD") == "" {
		// Only the packages that are interpreted from source need syntax: they are the roots of the load; everything
		// else (badger, net/http, protobuf, ...) is loaded from the compiler's export data, which is several times
		// cheaper than type-checking the whole dependency closure from source in every worker.
		cfg.Mode = packages.NeedName | packages.NeedFiles | packages.NeedCompiledGoFiles | packages.NeedImports |
			packages.NeedTypes | packages.NeedTypesSizes | packages.NeedSyntax | packages.NeedTypesInfo
		pats = interpretedClosure(cfg, pats)
	}
	initial, err := packages.Load(cfg, pats...)
	if err != nil {
		fatalf("packages.Load: %v", err)
	}
	nerr := 0
	packages.Visit(initial, nil, func(p *packages.Package) {
		for _, e := range p.Errors {
			if strings.HasPrefix(p.PkgPath, modPath) {
				fmt.Fprintf(os.Stderr, "load error: %v\n", e)
				nerr++
			} else if os.Getenv("GOSYM_LOADERRS") != "" {
				fmt.Fprintf(os.Stderr, "load error in %s: %v\n", p.PkgPath, e)
			}
		}
	})
	if nerr > 0 {
		fatalf("the repository (with the harness overlay) does not type-check: %d errors", nerr)
	}
	var prog *ssa.Program
	var pkgs []*ssa.Package
	if os.Getenv("GOSYM_FULLLOAD") != "" {
		prog, pkgs = ssautil.AllPackages(initial, ssa.InstantiateGenerics)
	} else {
		// as ssautil.AllPackages, but only the roots (the interpreted packages) are built from syntax; the other
		// packages were type-checked without function bodies and become body-less SSA packages
		isRoot := map[*packages.Package]bool{}
		for _, ip := range initial {
			isRoot[ip] = true
		}
		var fset *token.FileSet
		if len(initial) > 0 {
			fset = initial[0].Fset
		}
		prog = ssa.NewProgram(fset, ssa.InstantiateGenerics)
		packages.Visit(initial, nil, func(p *packages.Package) {
			if p.Types == nil || p.IllTyped && isRoot[p] {
				return
			}
			if isRoot[p] && p.TypesInfo != nil {
				pkgs = append(pkgs, prog.CreatePackage(p.Types, p.Syntax, p.TypesInfo, true))
			} else {
				prog.CreatePackage(p.Types, nil, nil, true)
			}
		})
	}
	if os.Getenv("GOSYM_LOADERRS") != "" {
		for _, sp := range prog.AllPackages() {
			func() {
				defer func() {
					if r := recover(); r != nil {
						fmt.Fprintf(os.Stderr, "ssa build of %s panicked: %v\n", sp.Pkg.Path(), r)
					}
				}()
				sp.Build()
			}()
		}
	}
	prog.Build()
	p := &Program{prog: prog, pkgs: map[string]*ssa.Package{}, overlay: ov}
	for _, sp := range pkgs {
		if sp != nil {
			p.pkgs[sp.Pkg.Path()] = sp
		}
	}
	for _, sp := range prog.AllPackages() {
		p.pkgs[sp.Pkg.Path()] = sp
	}
	p.loadSecs = time.Since(t0).Seconds()
	return p
}

func newInterp(p *Program, stats *SolverStats) *Interp {
	in := &Interp{
		prog:      p.prog,
		globals:   map[*ssa.Global]*value{},
		consts:    map[*ssa.Const]value{},
		fninfo:    map[*ssa.Function]*fnInfo{},
		initDone:  map[*ssa.Package]bool{},
		canInterp: map[string]bool{},
	}
	theInterp = in
	rt := p.prog.ImportedPackage("runtime")
	if rt == nil {
		fatalf("program lacks package runtime")
	}
	in.runtimeErrorString = rt.Type("errorString").Object().Type()
	in.solver = newSolver(10000, &in.stats)
	return in
}

// runInits runs the package initialisers of all interpretable packages in
// dependency order, concretely.
func (in *Interp) runInits(p *Program) {
	in.initing = true
	in.cfg = defaultCfg("init")
	in.res = &HarnessResult{KnownHits: map[string]*Violation{}, seenViol: map[string]bool{}, UnsupportedMsgs: map[string]int{}}
	in.resetPath()
	in.run.budget = 1 << 40
	var order []*ssa.Package
	seen := map[*types.Package]bool{}
	var visit func(tp *types.Package)
	visit = func(tp *types.Package) {
		if seen[tp] {
			return
		}
		seen[tp] = true
		imps := tp.Imports()
		sort.Slice(imps, func(i, j int) bool { return imps[i].Path() < imps[j].Path() })
		for _, imp := range imps {
			visit(imp)
		}
		if sp := in.prog.Package(tp); sp != nil && in.interpretable(tp.Path()) {
			order = append(order, sp)
		}
	}
	var roots []*ssa.Package
	for _, sp := range in.prog.AllPackages() {
		roots = append(roots, sp)
	}
	sort.Slice(roots, func(i, j int) bool { return roots[i].Pkg.Path() < roots[j].Pkg.Path() })
	for _, sp := range roots {
		visit(sp.Pkg)
	}
	for _, sp := range order {
		in.initPackage(sp)
	}
	in.initing = false
	in.initStoreGlobals()
	in.snapshotGlobals()
}

func (in *Interp) initPackage(sp *ssa.Package) {
	if in.initDone[sp] {
		return
	}
	in.initDone[sp] = true
	initFn := sp.Func("init")
	if initFn == nil {
		return
	}
	func() {
		defer func() {
			if r := recover(); r != nil {
				switch p := r.(type) {
				case pathAbort:
					fmt.Fprintf(os.Stderr, "gosym: init of %s aborted: %s\n", sp.Pkg.Path(), p.msg)
				case targetPanic:
					fmt.Fprintf(os.Stderr, "gosym: init of %s panicked: %s\n", sp.Pkg.Path(), toString(p.v))
				default:
					panic(r)
				}
			}
		}()
		in.call(nil, 0, initFn, nil)
	}()
}

func defaultCfg(name string) *HarnessCfg {
	return &HarnessCfg{Name: name, EnumCap: 64, Budget: 5_000_000, TimeoutMs: 30000, MaxVirtualNs: int64(30 * 24 * 3600 * time.Second), Samples: 3}
}

// ---- snapshot of mutable globals ----

type copier struct {
	cells map[*value]*value
	maps  map[*omap]*omap
	chans map[*channel]*channel
}

func newCopier() *copier {
	return &copier{cells: map[*value]*value{}, maps: map[*omap]*omap{}, chans: map[*channel]*channel{}}
}

func (c *copier) copy(v value) value {
	switch x := v.(type) {
	case structure:
		n := make(structure, len(x))
		for i := range x {
			n[i] = c.copy(x[i])
		}
		return n
	case array:
		n := make(array, len(x))
		for i := range x {
			n[i] = c.copy(x[i])
		}
		return n
	case tuple:
		n := make(tuple, len(x))
		for i := range x {
			n[i] = c.copy(x[i])
		}
		return n
	case []value:
		if x == nil {
			return x
		}
		full := x[:cap(x)]
		n := make([]value, len(full))
		for i := range full {
			n[i] = c.copy(full[i])
		}
		return n[:len(x)]
	case *value:
		if x == nil {
			return x
		}
		if n, ok := c.cells[x]; ok {
			return n
		}
		n := new(value)
		c.cells[x] = n
		*n = c.copy(*x)
		return n
	case iface:
		return iface{t: x.t, v: c.copy(x.v)}
	case *omap:
		if x == nil {
			return x
		}
		if n, ok := c.maps[x]; ok {
			return n
		}
		n := &omap{keyT: x.keyT, index: map[string]int{}, n: x.n, nsym: x.nsym}
		c.maps[x] = n
		for i := range x.keys {
			n.keys = append(n.keys, c.copy(x.keys[i]))
			n.vals = append(n.vals, c.copy(x.vals[i]))
			n.live = append(n.live, x.live[i])
		}
		for k, p := range x.index {
			n.index[k] = p
		}
		return n
	case *channel:
		if x == nil {
			return x
		}
		if n, ok := c.chans[x]; ok {
			return n
		}
		n := &channel{cap: x.cap, closed: x.closed}
		c.chans[x] = n
		for _, e := range x.buf {
			n.buf = append(n.buf, c.copy(e))
		}
		return n
	case *closure:
		if x == nil {
			return x
		}
		env := make([]value, len(x.Env))
		for i := range env {
			env[i] = c.copy(x.Env[i])
		}
		return &closure{Fn: x.Fn, Env: env}
	}
	return v
}

func (in *Interp) seedCopier() *copier {
	c := newCopier()
	for _, cell := range in.globals {
		c.cells[cell] = cell // pointers to global cells keep their identity
	}
	return c
}

func (in *Interp) snapshotGlobals() {
	in.snap = map[*ssa.Global]value{}
	c := in.seedCopier()
	for g, cell := range in.globals {
		if g.Pkg == nil {
			continue
		}
		pp := g.Pkg.Pkg.Path()
		if interpretableStd[pp] {
			continue
		}
		in.snap[g] = c.copy(*cell)
	}
}

func (in *Interp) restoreGlobals() {
	c := in.seedCopier()
	for g, v := range in.snap {
		*in.globals[g] = c.copy(v)
	}
	// globals first touched after the snapshot: reset to zero
	for g, cell := range in.globals {
		if _, ok := in.snap[g]; ok || g.Pkg == nil || interpretableStd[g.Pkg.Pkg.Path()] {
			continue
		}
		*cell = zero(deref(g.Type()))
	}
}

// interpretedClosure returns the interpretable packages among the transitive imports of the given packages (plus
// runtime, whose unexported error type the interpreter needs).
func interpretedClosure(cfg *packages.Config, pats []string) []string {
	c2 := *cfg
	c2.Mode = packages.NeedName | packages.NeedImports | packages.NeedDeps
	initial, err := packages.Load(&c2, pats...)
	if err != nil {
		fatalf("packages.Load (import graph): %v", err)
	}
	probe := &Interp{canInterp: map[string]bool{}}
	set := map[string]bool{"runtime": true}
	for _, p := range pats {
		set[p] = true
	}
	packages.Visit(initial, nil, func(p *packages.Package) {
		if probe.interpretable(p.PkgPath) {
			set[p.PkgPath] = true
		}
	})
	var out []string
	for p := range set {
		out = append(out, p)
	}
	sort.Strings(out)
	return out
}
