package main

import (
	"fmt"
	"go/token"
	"go/types"
	"math"
	"unsafe"

	"golang.org/x/tools/go/ssa"
)

func basicOf(t types.Type) *types.Basic {
	b, _ := t.Underlying().(*types.Basic)
	return b
}

func hasSym(x value) bool {
	switch x.(type) {
	case *Term, *symStr:
		return true
	}
	return false
}

// binop implements binary operators; xt/yt are the static operand types.
func (in *Interp) binop(op token.Token, xt, yt types.Type, x, y value) value {
	switch op {
	case token.EQL:
		return in.eqOp(xt, x, y)
	case token.NEQ:
		return notV(in.eqOp(xt, x, y))
	}
	if !hasSym(x) && !hasSym(y) {
		if op == token.QUO || op == token.REM {
			if b := basicOf(xt); b != nil && b.Info()&types.IsInteger != 0 {
				if asInt64(y) == 0 {
					rtPanic("integer divide by zero")
				}
			}
		}
		if op == token.SHL || op == token.SHR {
			if _, ok := asUnsigned(y); !ok {
				rtPanic("negative shift amount")
			}
		}
		return cbinop(op, xt, x, y)
	}
	b := basicOf(xt)
	if b == nil {
		panic(fmt.Sprintf("symbolic binop %s on %s", op, xt))
	}
	switch {
	case b.Info()&types.IsString != 0:
		switch op {
		case token.ADD:
			return strConcat(x, y)
		case token.LSS:
			return strLess(x, y)
		case token.GTR:
			return strLess(y, x)
		case token.LEQ:
			return notV(strLess(y, x))
		case token.GEQ:
			return notV(strLess(x, y))
		}
	case b.Info()&types.IsBoolean != 0:
		// only == and != reach here (handled above)
	case b.Info()&types.IsFloat != 0:
		a, c := toTerm(x), toTerm(y)
		switch op {
		case token.ADD:
			return in.fpResult(b, mkFpBin(opFpAdd, a, c))
		case token.SUB:
			return in.fpResult(b, mkFpBin(opFpSub, a, c))
		case token.MUL:
			return in.fpResult(b, in.fpMul(a, c))
		case token.QUO:
			return in.fpResult(b, mkFpBin(opFpDiv, a, c))
		case token.LSS:
			return termOrBool(mkFpCmp(opFpLt, a, c))
		case token.LEQ:
			return termOrBool(mkFpCmp(opFpLe, a, c))
		case token.GTR:
			return termOrBool(mkFpCmp(opFpLt, c, a))
		case token.GEQ:
			return termOrBool(mkFpCmp(opFpLe, c, a))
		}
	case b.Info()&types.IsInteger != 0:
		signed := !isUnsigned(b)
		a := toTerm(x)
		if op == token.SHL || op == token.SHR {
			return fromConst(b, in.shiftTerm(op, a, y, yt, signed))
		}
		c := toTerm(y)
		var r *Term
		switch op {
		case token.ADD:
			r = mkBvBin(opBvAdd, a, c)
		case token.SUB:
			r = mkBvBin(opBvSub, a, c)
		case token.MUL:
			r = mkBvBin(opBvMul, a, c)
		case token.AND:
			r = mkBvBin(opBvAnd, a, c)
		case token.OR:
			r = mkBvBin(opBvOr, a, c)
		case token.XOR:
			r = mkBvBin(opBvXor, a, c)
		case token.AND_NOT:
			r = mkBvBin(opBvAnd, a, mkBvNot(c))
		case token.QUO, token.REM:
			if in.branch(mkEq(c, mkBV(c.sort.W, 0))) {
				rtPanic("integer divide by zero")
			}
			if signed {
				if op == token.QUO {
					r = mkBvBin(opBvSDiv, a, c)
				} else {
					r = mkBvBin(opBvSRem, a, c)
				}
			} else {
				if op == token.QUO {
					r = mkBvBin(opBvUDiv, a, c)
				} else {
					r = mkBvBin(opBvURem, a, c)
				}
			}
		case token.LSS, token.LEQ, token.GTR, token.GEQ:
			lt, le := opBvUlt, opBvUle
			if signed {
				lt, le = opBvSlt, opBvSle
			}
			switch op {
			case token.LSS:
				return termOrBool(mkBvCmp(lt, a, c))
			case token.LEQ:
				return termOrBool(mkBvCmp(le, a, c))
			case token.GTR:
				return termOrBool(mkBvCmp(lt, c, a))
			default:
				return termOrBool(mkBvCmp(le, c, a))
			}
		}
		if r != nil {
			return fromConst(b, r)
		}
	}
	panic(fmt.Sprintf("invalid symbolic binary op: %T %s %T (%s)", x, op, y, xt))
}

func (in *Interp) fpResult(b *types.Basic, t *Term) value {
	if f, ok := fpConstVal(t); ok {
		if b.Kind() == types.Float32 {
			return float32(f)
		}
		return f
	}
	return t
}

// fpMul: optionally abstracts a multiplication of two values known to lie in
// [0,1] by a fresh variable constrained by the contract 0 <= m <= left operand
// (DESIGN 2.8); the contract itself is discharged by a separate harness.
func (in *Interp) fpMul(a, c *Term) *Term {
	if in.cfg != nil && in.cfg.FPMulAbstract && in.run != nil {
		in.run.fpMuls++
		m := mkVar(fmt.Sprintf("v!fpmul%d", in.run.fpMuls), bvSort(a.sort.W))
		mt := mkFpOfBV(m)
		zero := mkFpFromFloat(a.sort.W, 0)
		one := mkFpFromFloat(a.sort.W, 1)
		inUnit := func(x *Term) *Term { return mkAnd(mkFpCmp(opFpLe, zero, x), mkFpCmp(opFpLe, x, one)) }
		// only valid if both operands are in [0,1]: that is an obligation of the path
		in.obligation(mkAnd(inUnit(a), inUnit(c)), "fp-mul abstraction precondition (operands in [0,1])", "")
		in.assume(mkAnd(mkFpCmp(opFpLe, zero, mt), mkAnd(mkFpCmp(opFpLe, mt, a), mkFpCmp(opFpLe, mt, c))), false)
		return mt
	}
	return mkFpBin(opFpMul, a, c)
}

func (in *Interp) shiftTerm(op token.Token, a *Term, y value, yt types.Type, signed bool) *Term {
	w := a.sort.W
	yb := basicOf(yt)
	var cnt *Term
	if yt2, ok := y.(*Term); ok {
		if yb != nil && !isUnsigned(yb) {
			if in.branch(mkBvCmp(opBvSlt, yt2, mkBV(yt2.sort.W, 0))) {
				rtPanic("negative shift amount")
			}
		}
		yw := yt2.sort.W
		switch {
		case yw == w:
			cnt = yt2
		case yw < w:
			cnt = mkZext(yt2, w-yw)
		default:
			cnt = mkIte(mkBvCmp(opBvUle, mkBV(yw, uint64(w)), yt2), mkBV(w, uint64(w)), mkExtract(yt2, w-1, 0))
		}
	} else {
		u, ok := asUnsigned(y)
		if !ok {
			rtPanic("negative shift amount")
		}
		n := asUint64(u)
		if n > uint64(w) {
			n = uint64(w)
		}
		cnt = mkBV(w, n)
	}
	switch {
	case op == token.SHL:
		return mkBvBin(opBvShl, a, cnt)
	case signed:
		return mkBvBin(opBvAshr, a, cnt)
	default:
		return mkBvBin(opBvLshr, a, cnt)
	}
}

func (in *Interp) eqOp(t types.Type, x, y value) value {
	switch t.Underlying().(type) {
	case *types.Map, *types.Signature, *types.Slice:
		return isNilRef(x) == isNilRef(y) && (isNilRef(x) || sameRef(x, y))
	}
	if b := basicOf(t); b != nil && b.Info()&types.IsFloat != 0 && (hasSym(x) || hasSym(y)) {
		return termOrBool(mkFpCmp(opFpEq, toTerm(x), toTerm(y)))
	}
	return equalsV(t, x, y)
}

func sameRef(x, y value) bool {
	switch x := x.(type) {
	case *omap:
		return x == y.(*omap)
	}
	return false
}

func isNilRef(v value) bool {
	switch v := v.(type) {
	case *omap:
		return v == nil
	case []value:
		return v == nil
	case *closure:
		return v == nil
	case *ssa.Function:
		return v == nil
	case *hostFunc:
		return v == nil
	case nil:
		return true
	}
	return false
}

// conv converts x from type tSrc to tDst.
func (in *Interp) conv(tDst, tSrc types.Type, x value) value {
	utSrc := tSrc.Underlying()
	utDst := tDst.Underlying()
	switch utSrc := utSrc.(type) {
	case *types.Pointer:
		if b, ok := utDst.(*types.Basic); ok && b.Kind() == types.UnsafePointer {
			return x // pointers keep their identity through unsafe.Pointer
		}
	case *types.Slice:
		// []byte / []rune -> string
		xs := x.([]value)
		switch utSrc.Elem().Underlying().(*types.Basic).Kind() {
		case types.Byte:
			return mkString(xs)
		case types.Rune:
			r := make([]rune, 0, len(xs))
			for i := range xs {
				c, ok := xs[i].(int32)
				if !ok {
					abort(abUnsupported, "[]rune with symbolic elements to string")
				}
				r = append(r, c)
			}
			return string(r)
		}
	case *types.Basic:
		if s, ok := x.(*symStr); ok {
			switch utDst := utDst.(type) {
			case *types.Slice:
				if utDst.Elem().Underlying().(*types.Basic).Kind() == types.Byte {
					return append([]value(nil), strBytes(s)...)
				}
				abort(abUnsupported, "symbolic string to []rune")
			case *types.Basic:
				if utDst.Kind() == types.String {
					return s
				}
			}
		}
		if t, ok := x.(*Term); ok {
			return in.convTerm(utDst, utSrc, t)
		}
		if utSrc.Kind() == types.UnsafePointer {
			if _, ok := utDst.(*types.Pointer); ok {
				switch p := x.(type) {
				case *value:
					return p
				case unsafe.Pointer:
					if p == nil {
						return (*value)(nil)
					}
				}
				abort(abUnsupported, "unsafe.Pointer conversion")
			}
		}
		if s, ok := x.(string); ok {
			if sl, ok := utDst.(*types.Slice); ok && sl.Elem().Underlying().(*types.Basic).Kind() == types.Byte {
				return strBytes(s)
			}
		}
		if db, ok := utDst.(*types.Basic); ok && db.Info()&types.IsInteger != 0 && utSrc.Info()&types.IsFloat != 0 {
			// Go: out-of-range float->int is implementation-defined; the host does the same as the compiled code on amd64
		}
	}
	return cconv(tDst, tSrc, x)
}

func (in *Interp) convTerm(utDst types.Type, src *types.Basic, t *Term) value {
	dst, ok := utDst.(*types.Basic)
	if !ok {
		abort(abUnsupported, fmt.Sprintf("conversion of symbolic %s to %s", src, utDst))
	}
	switch {
	case src.Info()&types.IsInteger != 0 && dst.Info()&types.IsInteger != 0:
		dw, sw := basicWidth(dst), t.sort.W
		switch {
		case dw == sw:
			return t
		case dw < sw:
			return fromConst(dst, mkExtract(t, dw-1, 0))
		case isUnsigned(src):
			return fromConst(dst, mkZext(t, dw-sw))
		default:
			return fromConst(dst, mkSext(t, dw-sw))
		}
	case src.Info()&types.IsInteger != 0 && dst.Info()&types.IsFloat != 0:
		op := opFpFromSInt
		if isUnsigned(src) {
			op = opFpFromUInt
		}
		return mkFpUn(op, t, fpSort(basicWidth(dst)), 0)
	case src.Info()&types.IsFloat != 0 && dst.Info()&types.IsInteger != 0:
		op := opFpToSInt
		if isUnsigned(dst) {
			op = opFpToUInt
		}
		return mkFpUn(op, t, bvSort(basicWidth(dst)), 0)
	case src.Info()&types.IsFloat != 0 && dst.Info()&types.IsFloat != 0:
		if basicWidth(dst) == t.sort.W {
			return t
		}
		return mkFpUn(opFpToFp, t, fpSort(basicWidth(dst)), 0)
	case src.Info()&types.IsBoolean != 0 && dst.Info()&types.IsBoolean != 0:
		return t
	case src.Info()&types.IsInteger != 0 && dst.Kind() == types.String:
		abort(abUnsupported, "symbolic rune to string")
	}
	abort(abUnsupported, fmt.Sprintf("conversion of symbolic %s to %s", src, dst))
	return nil
}

var _ = math.MaxInt32
