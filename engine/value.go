package main

// Interpreter values.
//
// All values are boxed in the empty interface. Dynamic types:
//
//   bool, intN, uintN, uintptr, float32/64, complex  concrete scalars (host types)
//   *Term                        symbolic scalar (Bool, BitVec or FP sort)
//   string                       concrete string
//   *symStr                      string of concrete length with symbolic bytes
//   []value                      slice (concrete length/capacity, elements may be symbolic)
//   array, structure, tuple      aggregates
//   *value                       pointer
//   *symRef                      pointer into an array/slice at a symbolic index
//   iface                        interface value (concrete dynamic type)
//   *omap                        map (insertion ordered; nil pointer = nil map)
//   *channel                     channel (nil pointer = nil chan)
//   *ssa.Function, *ssa.Builtin, *closure   functions
//   rtype, *rvalue               reflect.Type / reflect.Value models
//   unsafe.Pointer               only nil

import (
	"fmt"
	"go/types"
	"sort"
	"strings"
	"unsafe"

	"golang.org/x/tools/go/ssa"
)

type value interface{}

type tuple []value
type array []value
type structure []value

type iface struct {
	t types.Type // never an untyped type; nil for the nil interface
	v value
}

type closure struct {
	Fn  *ssa.Function
	Env []value
}

type bad struct{}

type rtype struct{ t types.Type }

// symStr is a string of concrete length whose bytes may be symbolic
// (each element is uint8 or a *Term of sort (_ BitVec 8)).
type symStr struct {
	b      []value
	opaque string // non-empty: contents unknown (result of formatting symbolic data); inspection is unsupported
}

// symRef is the address of element idx (symbolic, proven in range) of base.
type symRef struct {
	base []value
	idx  *Term // BV64
}

func isSym(v value) bool { _, ok := v.(*Term); return ok }

// ---- strings ----

func strLen(v value) int {
	switch s := v.(type) {
	case string:
		return len(s)
	case *symStr:
		if s.opaque != "" {
			abort(abUnsupported, "len of opaque string "+s.opaque)
		}
		return len(s.b)
	}
	panic(fmt.Sprintf("strLen %T", v))
}

func strBytes(v value) []value {
	switch s := v.(type) {
	case string:
		r := make([]value, len(s))
		for i := 0; i < len(s); i++ {
			r[i] = s[i]
		}
		return r
	case *symStr:
		if s.opaque != "" {
			abort(abUnsupported, "bytes of opaque string "+s.opaque)
		}
		return s.b
	}
	panic(fmt.Sprintf("strBytes %T", v))
}

// mkString builds a string value from bytes, collapsing to a host string if
// all bytes are concrete.
func mkString(b []value) value {
	conc := true
	for _, x := range b {
		if _, ok := x.(uint8); !ok {
			conc = false
			break
		}
	}
	if conc {
		bs := make([]byte, len(b))
		for i, x := range b {
			bs[i] = x.(uint8)
		}
		return string(bs)
	}
	c := make([]value, len(b))
	copy(c, b)
	return &symStr{b: c}
}

func strConcat(x, y value) value {
	if a, ok := x.(string); ok {
		if b, ok := y.(string); ok {
			return a + b
		}
	}
	if a, ok := x.(*symStr); ok && a.opaque != "" {
		return a
	}
	if b, ok := y.(*symStr); ok && b.opaque != "" {
		return b
	}
	return mkString(append(append([]value{}, strBytes(x)...), strBytes(y)...))
}

func byteTerm(v value) *Term {
	switch b := v.(type) {
	case uint8:
		return mkBV(8, uint64(b))
	case *Term:
		return b
	}
	panic(fmt.Sprintf("byteTerm %T", v))
}

// strEq returns bool or *Term.
func strEq(x, y value) value {
	if a, ok := x.(string); ok {
		if b, ok := y.(string); ok {
			return a == b
		}
	}
	if strLen(x) != strLen(y) {
		return false
	}
	xb, yb := strBytes(x), strBytes(y)
	r := mkBool(true)
	for i := range xb {
		r = mkAnd(r, mkEq(byteTerm(xb[i]), byteTerm(yb[i])))
		if r.isFalse() {
			return false
		}
	}
	return termOrBool(r)
}

// strLess: lexicographic x < y; bool or *Term
func strLess(x, y value) value {
	if a, ok := x.(string); ok {
		if b, ok := y.(string); ok {
			return a < b
		}
	}
	xb, yb := strBytes(x), strBytes(y)
	n := len(xb)
	if len(yb) < n {
		n = len(yb)
	}
	// result = exists i: prefix equal up to i and x[i]<y[i], or all n equal and len(x)<len(y)
	r := mkBool(len(xb) < len(yb))
	for i := n - 1; i >= 0; i-- {
		a, b := byteTerm(xb[i]), byteTerm(yb[i])
		r = mkIte(mkEq(a, b), r, mkBvCmp(opBvUlt, a, b))
	}
	return termOrBool(r)
}

func termOrBool(t *Term) value {
	if t.isConst() && t.sort.K == sBool {
		return t.cval == 1
	}
	return t
}

// ---- maps ----

type omap struct {
	keyT  types.Type
	keys  []value
	vals  []value
	live  []bool
	index map[string]int // canonical key string -> position, concrete keys only
	n     int
	nsym  int // number of live entries with non-concrete keys
}

func newMap(keyT types.Type) *omap {
	return &omap{keyT: keyT, index: map[string]int{}}
}

// keyString renders a fully concrete key canonically; ok=false if the key has symbolic parts.
func keyString(v value, sb *strings.Builder) bool {
	switch v := v.(type) {
	case *Term, *symStr:
		return false
	case string:
		fmt.Fprintf(sb, "s%d:%s", len(v), v)
	case iface:
		if v.t == nil {
			sb.WriteString("nil")
			return true
		}
		sb.WriteString("i<")
		sb.WriteString(v.t.String())
		sb.WriteString(">")
		return keyString(v.v, sb)
	case structure:
		sb.WriteByte('{')
		for _, f := range v {
			if !keyString(f, sb) {
				return false
			}
			sb.WriteByte(',')
		}
		sb.WriteByte('}')
	case array:
		sb.WriteByte('[')
		for _, f := range v {
			if !keyString(f, sb) {
				return false
			}
			sb.WriteByte(',')
		}
		sb.WriteByte(']')
	case *value:
		fmt.Fprintf(sb, "p%p", v)
	case *channel:
		fmt.Fprintf(sb, "c%p", v)
	case rtype:
		sb.WriteString("rt<" + v.t.String() + ">")
	default:
		fmt.Fprintf(sb, "%T:%v", v, v)
	}
	return true
}

func (m *omap) len() int { return m.n }

// find returns the position of key, forking on symbolic equality where needed. -1 if absent.
func (m *omap) find(in *Interp, key value) int {
	var sb strings.Builder
	conc := keyString(key, &sb)
	if conc {
		if p, ok := m.index[sb.String()]; ok {
			return p
		}
		if m.nsym == 0 {
			return -1
		}
	}
	for p := range m.keys {
		if !m.live[p] {
			continue
		}
		if conc {
			var kb strings.Builder
			if keyString(m.keys[p], &kb) {
				continue // concrete stored key, already handled through index
			}
		}
		eq := equalsV(m.keyT, m.keys[p], key)
		if in.branchV(eq) {
			return p
		}
	}
	return -1
}

func (m *omap) lookup(in *Interp, key value) (value, bool) {
	if m == nil {
		return nil, false
	}
	p := m.find(in, key)
	if p < 0 {
		return nil, false
	}
	return m.vals[p], true
}

func (m *omap) insert(in *Interp, key, val value) {
	p := m.find(in, key)
	if p >= 0 {
		m.vals[p] = val
		return
	}
	var sb strings.Builder
	if keyString(key, &sb) {
		m.index[sb.String()] = len(m.keys)
	} else {
		m.nsym++
	}
	m.keys = append(m.keys, key)
	m.vals = append(m.vals, val)
	m.live = append(m.live, true)
	m.n++
}

func (m *omap) delete(in *Interp, key value) {
	if m == nil {
		return
	}
	p := m.find(in, key)
	if p < 0 {
		return
	}
	var sb strings.Builder
	if keyString(m.keys[p], &sb) {
		delete(m.index, sb.String())
	} else {
		m.nsym--
	}
	m.live[p] = false
	m.n--
}

// order of iteration; mode 0: insertion, 1: reverse, 2: sorted by canonical key
func (m *omap) order(mode int) []int {
	var ps []int
	for p := range m.keys {
		if m.live[p] {
			ps = append(ps, p)
		}
	}
	switch mode {
	case 1:
		for i, j := 0, len(ps)-1; i < j; i, j = i+1, j-1 {
			ps[i], ps[j] = ps[j], ps[i]
		}
	case 2:
		ks := make([]string, len(m.keys))
		for _, p := range ps {
			var sb strings.Builder
			keyString(m.keys[p], &sb)
			ks[p] = sb.String()
		}
		sort.SliceStable(ps, func(i, j int) bool { return ks[ps[i]] < ks[ps[j]] })
	}
	return ps
}

type mapIter struct {
	m    *omap
	ord  []int
	i    int
	keyT types.Type
}

func (it *mapIter) next() tuple {
	for it.i < len(it.ord) {
		p := it.ord[it.i]
		it.i++
		if it.m.live[p] { // deleted during iteration: skipped, like Go
			return tuple{true, copyVal(it.m.keys[p]), copyVal(it.m.vals[p])}
		}
	}
	return tuple{false, nil, nil}
}

type stringIter struct {
	in *Interp
	b  []value
	i  int
}

func (it *stringIter) next() tuple {
	if it.i >= len(it.b) {
		return tuple{false, int(0), int32(0)}
	}
	pos := it.i
	switch c := it.b[pos].(type) {
	case uint8:
		if c < 0x80 {
			it.i++
			return tuple{true, pos, int32(c)}
		}
		// decode multi-byte concretely if all needed bytes are concrete
		var buf []byte
		for j := pos; j < len(it.b) && j < pos+4; j++ {
			cb, ok := it.b[j].(uint8)
			if !ok {
				break
			}
			buf = append(buf, cb)
		}
		r, sz := decodeRune(buf)
		it.i += sz
		return tuple{true, pos, r}
	case *Term:
		if !it.in.branch(mkBvCmp(opBvUlt, c, mkBV(8, 0x80))) {
			abort(abUnsupported, "range over string with symbolic non-ASCII byte")
		}
		it.i++
		return tuple{true, pos, value(mkZext(c, 24))}
	}
	panic("stringIter")
}

type iter interface{ next() tuple }

// ---- zero / copy ----

func zero(t types.Type) value {
	switch t := t.(type) {
	case *types.Basic:
		if t.Kind() == types.UntypedNil {
			panic("untyped nil has no zero value")
		}
		if t.Info()&types.IsUntyped != 0 {
			t = types.Default(t).(*types.Basic)
		}
		switch t.Kind() {
		case types.Bool:
			return false
		case types.Int:
			return int(0)
		case types.Int8:
			return int8(0)
		case types.Int16:
			return int16(0)
		case types.Int32:
			return int32(0)
		case types.Int64:
			return int64(0)
		case types.Uint:
			return uint(0)
		case types.Uint8:
			return uint8(0)
		case types.Uint16:
			return uint16(0)
		case types.Uint32:
			return uint32(0)
		case types.Uint64:
			return uint64(0)
		case types.Uintptr:
			return uintptr(0)
		case types.Float32:
			return float32(0)
		case types.Float64:
			return float64(0)
		case types.Complex64:
			return complex64(0)
		case types.Complex128:
			return complex128(0)
		case types.String:
			return ""
		case types.UnsafePointer:
			return unsafe.Pointer(nil)
		default:
			panic(fmt.Sprint("zero for unexpected type:", t))
		}
	case *types.Pointer:
		return (*value)(nil)
	case *types.Array:
		a := make(array, t.Len())
		for i := range a {
			a[i] = zero(t.Elem())
		}
		return a
	case *types.Named:
		return zero(t.Underlying())
	case *types.Alias:
		return zero(types.Unalias(t))
	case *types.Interface:
		return iface{}
	case *types.Slice:
		return []value(nil)
	case *types.Struct:
		s := make(structure, t.NumFields())
		for i := range s {
			s[i] = zero(t.Field(i).Type())
		}
		return s
	case *types.Tuple:
		if t.Len() == 1 {
			return zero(t.At(0).Type())
		}
		s := make(tuple, t.Len())
		for i := range s {
			s[i] = zero(t.At(i).Type())
		}
		return s
	case *types.Chan:
		return (*channel)(nil)
	case *types.Map:
		return (*omap)(nil)
	case *types.Signature:
		return (*ssa.Function)(nil)
	}
	panic(fmt.Sprint("zero: unexpected ", t))
}

// copyVal copies aggregates (structs and arrays have value semantics).
func copyVal(v value) value {
	switch v := v.(type) {
	case structure:
		c := make(structure, len(v))
		for i := range v {
			c[i] = copyVal(v[i])
		}
		return c
	case array:
		c := make(array, len(v))
		for i := range v {
			c[i] = copyVal(v[i])
		}
		return c
	}
	return v
}

// ---- equality (symbolic aware) ----

// equalsV returns bool or *Term for x == y at static type t.
func equalsV(t types.Type, x, y value) value {
	switch x := x.(type) {
	case *Term:
		return termOrBool(scalarEq(x, toTermLike(x, y)))
	case string, *symStr:
		return strEq(x, y)
	case iface:
		yi, ok := y.(iface)
		if !ok {
			panic(fmt.Sprintf("equalsV iface vs %T", y))
		}
		if x.t == nil || yi.t == nil {
			return x.t == nil && yi.t == nil
		}
		if !types.Identical(x.t, yi.t) {
			return false
		}
		if !types.Comparable(x.t) {
			panic(targetPanic{runtimeErr("runtime error: comparing uncomparable type " + x.t.String())})
		}
		return equalsV(x.t, x.v, yi.v)
	case structure:
		ys := y.(structure)
		st := t.Underlying().(*types.Struct)
		r := value(true)
		for i := range x {
			if st.Field(i).Name() == "_" {
				continue
			}
			r = andV(r, equalsV(st.Field(i).Type(), x[i], ys[i]))
			if b, ok := r.(bool); ok && !b {
				return false
			}
		}
		return r
	case array:
		ya := y.(array)
		et := t.Underlying().(*types.Array).Elem()
		r := value(true)
		for i := range x {
			r = andV(r, equalsV(et, x[i], ya[i]))
			if b, ok := r.(bool); ok && !b {
				return false
			}
		}
		return r
	case *value:
		if yp, ok := y.(unsafe.Pointer); ok {
			return x == nil && yp == nil
		}
		return x == y.(*value)
	case *omap:
		return (x == nil) == (y.(*omap) == nil) && (x == nil || x == y.(*omap))
	case *channel:
		return x == y.(*channel)
	case []value:
		return (x == nil) == (y.([]value) == nil)
	case *ssa.Function:
		switch y := y.(type) {
		case *ssa.Function:
			return (x == nil) == (y == nil)
		case *closure:
			return false
		}
	case *closure:
		if yf, ok := y.(*ssa.Function); ok {
			return yf != nil && false
		}
		return x == y
	case rtype:
		yr, ok := y.(rtype)
		return ok && types.Identical(x.t, yr.t)
	case unsafe.Pointer:
		if yp, ok := y.(*value); ok {
			return x == nil && yp == nil
		}
		return x == y.(unsafe.Pointer)
	case bool:
		if yt, ok := y.(*Term); ok {
			return termOrBool(mkEq(mkBool(x), yt))
		}
		return x == y.(bool)
	}
	if yt, ok := y.(*Term); ok {
		return termOrBool(scalarEq(toTermLike(yt, x), yt))
	}
	// concrete scalars of identical dynamic type
	return x == y
}

func scalarEq(a, b *Term) *Term {
	if a.sort.K == sFP {
		return mkFpCmp(opFpEq, a, b)
	}
	return mkEq(a, b)
}

func andV(a, b value) value {
	if x, ok := a.(bool); ok {
		if !x {
			return false
		}
		return b
	}
	if y, ok := b.(bool); ok {
		if !y {
			return false
		}
		return a
	}
	return termOrBool(mkAnd(a.(*Term), b.(*Term)))
}

func orV(a, b value) value {
	if x, ok := a.(bool); ok {
		if x {
			return true
		}
		return b
	}
	if y, ok := b.(bool); ok {
		if y {
			return true
		}
		return a
	}
	return termOrBool(mkOr(a.(*Term), b.(*Term)))
}

func notV(a value) value {
	if x, ok := a.(bool); ok {
		return !x
	}
	return termOrBool(mkNot(a.(*Term)))
}

// toTerm converts a concrete scalar to a constant term.
func toTerm(v value) *Term {
	switch x := v.(type) {
	case *Term:
		return x
	case bool:
		return mkBool(x)
	case int:
		return mkBV(64, uint64(x))
	case int8:
		return mkBV(8, uint64(x))
	case int16:
		return mkBV(16, uint64(x))
	case int32:
		return mkBV(32, uint64(x))
	case int64:
		return mkBV(64, uint64(x))
	case uint:
		return mkBV(64, uint64(x))
	case uint8:
		return mkBV(8, uint64(x))
	case uint16:
		return mkBV(16, uint64(x))
	case uint32:
		return mkBV(32, uint64(x))
	case uint64:
		return mkBV(64, x)
	case uintptr:
		return mkBV(64, uint64(x))
	case float64:
		return mkFpFromFloat(64, x)
	case float32:
		return mkFpFromFloat(32, float64(x))
	}
	panic(fmt.Sprintf("toTerm %T", v))
}

// toTermLike converts y into a term of the same sort as pattern p.
func toTermLike(p *Term, y value) *Term {
	t := toTerm(y)
	if t.sort != p.sort {
		panic(fmt.Sprintf("sort mismatch %v vs %v (%T)", p.sort, t.sort, y))
	}
	return t
}

// fromConst turns a constant term back into a host scalar of basic type t.
func fromConst(t *types.Basic, c *Term) value {
	if !c.isConst() {
		if f, ok := fpConstVal(c); ok {
			if t.Kind() == types.Float32 {
				return float32(f)
			}
			return f
		}
		return c
	}
	v := c.cval
	switch t.Kind() {
	case types.Bool, types.UntypedBool:
		return v == 1
	case types.Int:
		return int(v)
	case types.Int8:
		return int8(v)
	case types.Int16:
		return int16(v)
	case types.Int32, types.UntypedRune:
		return int32(v)
	case types.Int64:
		return int64(v)
	case types.Uint:
		return uint(v)
	case types.Uint8:
		return uint8(v)
	case types.Uint16:
		return uint16(v)
	case types.Uint32:
		return uint32(v)
	case types.Uint64:
		return v
	case types.Uintptr:
		return uintptr(v)
	}
	panic("fromConst " + t.String())
}

func basicWidth(t *types.Basic) int {
	switch t.Kind() {
	case types.Int8, types.Uint8:
		return 8
	case types.Int16, types.Uint16:
		return 16
	case types.Int32, types.Uint32, types.UntypedRune, types.Float32:
		return 32
	}
	return 64
}

func isUnsigned(t *types.Basic) bool { return t.Info()&types.IsUnsigned != 0 }

// toString renders a value for diagnostics.
func toString(v value) string {
	switch v := v.(type) {
	case *Term:
		return "<sym " + v.sort.String() + ">"
	case *symStr:
		if v.opaque != "" {
			return "<opaque:" + v.opaque + ">"
		}
		var sb strings.Builder
		for _, b := range v.b {
			if c, ok := b.(uint8); ok {
				sb.WriteByte(c)
			} else {
				sb.WriteString("\\?")
			}
		}
		return sb.String()
	case iface:
		if v.t == nil {
			return "<nil>"
		}
		return fmt.Sprintf("(%s)%s", v.t, toString(v.v))
	case structure:
		var p []string
		for _, f := range v {
			p = append(p, toString(f))
		}
		return "{" + strings.Join(p, " ") + "}"
	case array:
		var p []string
		for _, f := range v {
			p = append(p, toString(f))
		}
		return "[" + strings.Join(p, " ") + "]"
	case []value:
		var p []string
		for _, f := range v {
			p = append(p, toString(f))
		}
		return "[" + strings.Join(p, " ") + "]"
	case *value:
		if v == nil {
			return "<nil ptr>"
		}
		return "&" + toString(*v)
	case tuple:
		var p []string
		for _, f := range v {
			p = append(p, toString(f))
		}
		return "(" + strings.Join(p, ", ") + ")"
	case *ssa.Function:
		if v == nil {
			return "<nil func>"
		}
		return v.String()
	case *closure:
		return "closure:" + v.Fn.String()
	case rtype:
		return "rtype:" + v.t.String()
	}
	return fmt.Sprintf("%v", v)
}

func decodeRune(p []byte) (rune, int) {
	r := []rune(string(p))
	if len(r) == 0 {
		return 0xFFFD, 1
	}
	if r[0] == 0xFFFD {
		return 0xFFFD, 1
	}
	return r[0], len(string(r[0]))
}
