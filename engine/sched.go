package main

// Cooperative goroutines, channels, select and virtual time.
//
// Each interpreted goroutine runs on its own host goroutine, but exactly one of
// them runs at any time (baton passing), so execution is deterministic and can
// be re-executed along a decision vector. A goroutine runs until it blocks;
// then the lowest-numbered ready goroutine continues. Timers fire only when
// every goroutine is blocked (virtual time).

import (
	"fmt"
	"go/token"
	"go/types"
	"os"
	"runtime"
	"sort"

	"golang.org/x/tools/go/ssa"
)

type goroutine struct {
	id      int
	wake    chan struct{}
	done    bool
	started bool
	ready   func() bool // nil = runnable
	exited  chan struct{}
	what    string
}

type vtimer struct {
	when   int64
	period int64
	ch     *channel
	f      value // AfterFunc
	active bool
	seq    int
}

type scheduler struct {
	in           *Interp
	gs           []*goroutine
	cur          *goroutine
	now          int64 // virtual nanoseconds since path start
	timers       []*vtimer
	killing      bool
	pendingAbort *pathAbort
	pendingPanic *targetPanic
	timerSeq     int
	switches     int
}

func newScheduler(in *Interp) *scheduler {
	s := &scheduler{in: in}
	main := &goroutine{id: 0, wake: make(chan struct{}, 1), started: true, what: "main"}
	s.gs = []*goroutine{main}
	s.cur = main
	return s
}

func (in *Interp) spawn(fn value, args []value, pos token.Pos) {
	s := in.sched
	live := 0
	for _, og := range s.gs {
		if !og.done {
			live++
		}
	}
	if live >= 64 || len(s.gs) >= 8192 {
		// checked before the goroutine is registered: killAll waits for every registered goroutine
		abort(abUnwind, "more than 64 live goroutines (or 8192 in total) on one path")
	}
	g := &goroutine{id: len(s.gs), wake: make(chan struct{}, 1), exited: make(chan struct{}), what: fmt.Sprint(fnName(fn))}
	s.gs = append(s.gs, g)
	go func() {
		<-g.wake
		defer close(g.exited)
		defer func() {
			r := recover()
			g.done = true
			if s.killing {
				return
			}
			switch p := r.(type) {
			case nil:
			case pathAbort:
				if p.kind != abKill {
					s.pendingAbort = &p
				}
			case targetPanic:
				s.pendingPanic = &p
			default:
				buf := make([]byte, 1<<14)
				n := runtime.Stack(buf, false)
				fmt.Fprintf(os.Stderr, "ENGINE-PANIC in goroutine %d: %v\n%s\n", g.id, r, buf[:n])
				s.pendingAbort = &pathAbort{abUnsupported, fmt.Sprintf("engine panic: %v", r)}
			}
			// hand the baton on
			if s.pendingAbort != nil || s.pendingPanic != nil {
				s.wakeOnly(s.gs[0])
				return
			}
			next := s.pickNext(g)
			if next == nil {
				// nobody can run: let main discover the deadlock
				s.wakeOnly(s.gs[0])
				return
			}
			s.wakeOnly(next)
		}()
		if s.killing {
			panic(pathAbort{abKill, ""})
		}
		g.started = true
		in.call(nil, pos, fn, args)
	}()
}

func fnName(fn value) string {
	switch f := fn.(type) {
	case *ssa.Function:
		return f.String()
	case *closure:
		return f.Fn.String()
	}
	return fmt.Sprintf("%T", fn)
}

func (s *scheduler) wakeOnly(g *goroutine) {
	s.cur = g
	g.ready = nil
	g.wake <- struct{}{}
}

// isReady reports whether g could run now.
func (s *scheduler) isReady(g *goroutine) bool {
	if g.done {
		return false
	}
	return g.ready == nil || g.ready()
}

// pickNext chooses the next goroutine to run when `from` cannot continue,
// advancing virtual time if necessary. Returns nil on deadlock.
func (s *scheduler) pickNext(from *goroutine) *goroutine {
	for {
		for _, g := range s.gs {
			if g != from && s.isReady(g) {
				return g
			}
		}
		if from != nil && !from.done && s.isReady(from) {
			return from
		}
		if !s.fireNextTimer() {
			return nil
		}
	}
}

func (s *scheduler) fireNextTimer() bool {
	var best *vtimer
	for _, t := range s.timers {
		if t.active && (best == nil || t.when < best.when || t.when == best.when && t.seq < best.seq) {
			best = t
		}
	}
	if best == nil {
		return false
	}
	if best.when > s.now {
		s.now = best.when
	}
	if s.now > s.in.cfg.MaxVirtualNs {
		return false
	}
	if best.period > 0 {
		best.when += best.period
	} else {
		best.active = false
	}
	if best.f != nil {
		s.in.spawn(best.f, nil, token.NoPos)
	} else if len(best.ch.buf) < best.ch.cap {
		best.ch.buf = append(best.ch.buf, s.in.timeValue())
	}
	return true
}

// block suspends the current goroutine until ready() holds.
func (s *scheduler) block(ready func() bool, what string) {
	me := s.cur
	if ready() {
		return
	}
	me.ready = ready
	me.what = what
	for {
		next := s.pickNext(me)
		if next == nil {
			me.ready = nil
			if me.id == 0 {
				abort(abDeadlock, "all goroutines blocked; main waits on "+what+s.describe())
			}
			// let main report it
			s.pendingAbort = &pathAbort{abDeadlock, "all goroutines blocked; goroutine waits on " + what + s.describe()}
			next = s.gs[0]
		}
		if next == me {
			me.ready = nil
			return
		}
		s.switches++
		s.cur = next
		next.wake <- struct{}{}
		<-me.wake
		s.cur = me
		s.afterWake(me)
		if me.ready == nil {
			return // woken by someone who verified readiness
		}
		if me.ready() {
			me.ready = nil
			return
		}
	}
}

func (s *scheduler) describe() string {
	r := ""
	for _, g := range s.gs {
		if !g.done {
			r += fmt.Sprintf(" [g%d:%s]", g.id, g.what)
		}
	}
	return r
}

func (s *scheduler) afterWake(me *goroutine) {
	if s.killing {
		panic(pathAbort{abKill, ""})
	}
	if me.id == 0 {
		if s.pendingAbort != nil {
			pa := *s.pendingAbort
			s.pendingAbort = nil
			panic(pa)
		}
		if s.pendingPanic != nil {
			tp := *s.pendingPanic
			s.pendingPanic = nil
			panic(tp)
		}
	}
}

// yield lets other ready goroutines run (used at explicit scheduling points).
func (s *scheduler) yield() {
	me := s.cur
	for _, g := range s.gs {
		if g != me && s.isReady(g) {
			s.switches++
			me.ready = func() bool { return true }
			s.cur = g
			g.wake <- struct{}{}
			<-me.wake
			s.cur = me
			me.ready = nil
			s.afterWake(me)
			return
		}
	}
}

// killAll tears down all goroutines at the end of a path.
func (s *scheduler) killAll() {
	s.killing = true
	for _, g := range s.gs[1:] {
		if !g.done {
			g.wake <- struct{}{}
			<-g.exited
		}
	}
}

// ---- channels ----

type sendReq struct {
	v    value
	done bool
}

type channel struct {
	buf         []value
	cap         int
	closed      bool
	sendq       []*sendReq
	recvWaiting int
}

func newChannel(n int) *channel { return &channel{cap: n} }

func (in *Interp) chanSend(ch *channel, v value) {
	s := in.sched
	if ch == nil {
		s.block(func() bool { return false }, "send on nil channel")
	}
	if ch.closed {
		panic(targetPanic{runtimeErr("send on closed channel")})
	}
	v = copyVal(v)
	if ch.cap > 0 {
		s.block(func() bool { return len(ch.buf) < ch.cap || ch.closed }, "chan send")
		if ch.closed {
			panic(targetPanic{runtimeErr("send on closed channel")})
		}
		ch.buf = append(ch.buf, v)
		return
	}
	req := &sendReq{v: v}
	ch.sendq = append(ch.sendq, req)
	s.block(func() bool { return req.done || ch.closed }, "chan send (unbuffered)")
	if !req.done && ch.closed {
		panic(targetPanic{runtimeErr("send on closed channel")})
	}
}

func (ch *channel) canRecv() bool {
	return len(ch.buf) > 0 || len(ch.sendq) > 0 || ch.closed
}

func (ch *channel) takeRecv() (value, bool) {
	if len(ch.buf) > 0 {
		v := ch.buf[0]
		ch.buf = append([]value(nil), ch.buf[1:]...)
		return v, true
	}
	if len(ch.sendq) > 0 {
		req := ch.sendq[0]
		ch.sendq = ch.sendq[1:]
		req.done = true
		return req.v, true
	}
	return nil, false // closed
}

func (in *Interp) chanRecv(ch *channel) (value, bool) {
	s := in.sched
	if ch == nil {
		s.block(func() bool { return false }, "receive from nil channel")
	}
	if !ch.canRecv() {
		ch.recvWaiting++
		s.block(ch.canRecv, "chan receive")
		ch.recvWaiting--
	}
	return ch.takeRecv()
}

func (in *Interp) chanClose(ch *channel) {
	if ch == nil {
		panic(targetPanic{runtimeErr("close of nil channel")})
	}
	if ch.closed {
		panic(targetPanic{runtimeErr("close of closed channel")})
	}
	ch.closed = true
}

func (in *Interp) doSelect(fr *frame, instr *ssa.Select) value {
	s := in.sched
	type cs struct {
		ch   *channel
		send bool
		v    value
	}
	cases := make([]cs, len(instr.States))
	for i, st := range instr.States {
		cases[i].ch = fr.get(st.Chan).(*channel)
		if st.Dir == types.SendOnly {
			cases[i].send = true
			cases[i].v = fr.get(st.Send)
		}
	}
	readyIdx := func() int {
		for i, c := range cases {
			if c.ch == nil {
				continue
			}
			if c.send {
				if c.ch.closed || (c.ch.cap > 0 && len(c.ch.buf) < c.ch.cap) || (c.ch.cap == 0 && c.ch.recvWaiting > 0) {
					return i
				}
			} else if c.ch.canRecv() {
				return i
			}
		}
		return -1
	}
	chosen := readyIdx()
	if chosen < 0 && instr.Blocking {
		for _, c := range cases {
			if c.ch != nil && !c.send {
				c.ch.recvWaiting++
			}
		}
		s.block(func() bool { return readyIdx() >= 0 }, "select")
		for _, c := range cases {
			if c.ch != nil && !c.send {
				c.ch.recvWaiting--
			}
		}
		chosen = readyIdx()
	}
	r := tuple{chosen, false}
	var recvVal value
	recvOk := false
	if chosen >= 0 {
		c := cases[chosen]
		if c.send {
			if c.ch.closed {
				panic(targetPanic{runtimeErr("send on closed channel")})
			}
			if c.ch.cap > 0 {
				c.ch.buf = append(c.ch.buf, copyVal(c.v))
			} else {
				c.ch.sendq = append(c.ch.sendq, &sendReq{v: copyVal(c.v)})
			}
		} else {
			recvVal, recvOk = c.ch.takeRecv()
		}
	}
	r[1] = recvOk
	for i, st := range instr.States {
		if st.Dir == types.RecvOnly {
			var v value
			if i == chosen && recvOk {
				v = recvVal
			} else {
				v = zero(st.Chan.Type().Underlying().(*types.Chan).Elem())
			}
			r = append(r, v)
		}
	}
	return r
}

// ---- timers ----

func (s *scheduler) addTimer(d int64, period int64, ch *channel, f value) *vtimer {
	s.timerSeq++
	t := &vtimer{when: s.now + d, period: period, ch: ch, f: f, active: true, seq: s.timerSeq}
	s.timers = append(s.timers, t)
	return t
}

func (s *scheduler) sleep(d int64) {
	if d <= 0 {
		s.yield()
		return
	}
	until := s.now + d
	t := s.addTimer(d, 0, newChannel(1), nil)
	_ = t
	s.block(func() bool { return s.now >= until }, "sleep")
}

func (s *scheduler) timerOrder() []*vtimer {
	ts := append([]*vtimer(nil), s.timers...)
	sort.Slice(ts, func(i, j int) bool { return ts[i].when < ts[j].when })
	return ts
}
