package main

// Hash-consed SMT terms with construction-time simplification, SMT-LIB2
// printing, and a concrete evaluator (used to cross-check models against the
// native replay).

import (
	"fmt"
	"math"
	"math/bits"
	"strconv"
	"strings"
)

type sortKind uint8

const (
	sBool sortKind = iota
	sBV
	sFP
)

type Sort struct {
	K sortKind
	W int // BV width, or 32/64 for FP
}

func (s Sort) String() string {
	switch s.K {
	case sBool:
		return "Bool"
	case sBV:
		return fmt.Sprintf("(_ BitVec %d)", s.W)
	default:
		if s.W == 32 {
			return "(_ FloatingPoint 8 24)"
		}
		return "(_ FloatingPoint 11 53)"
	}
}

var boolSort = Sort{sBool, 0}

func bvSort(w int) Sort { return Sort{sBV, w} }

type Op uint8

const (
	opConst Op = iota // BV const (cval) / Bool const (cval 0/1)
	opVar
	opNot
	opAnd
	opOr
	opEq
	opIte
	opBvAdd
	opBvSub
	opBvMul
	opBvUDiv
	opBvURem
	opBvSDiv
	opBvSRem
	opBvAnd
	opBvOr
	opBvXor
	opBvNot
	opBvNeg
	opBvShl
	opBvLshr
	opBvAshr
	opBvUlt
	opBvUle
	opBvSlt
	opBvSle
	opExtract // p1=hi p2=lo
	opConcat
	opZext // p1 = extra bits
	opSext
	// FP
	opFpAdd
	opFpSub
	opFpMul
	opFpDiv
	opFpNeg
	opFpLt
	opFpLe
	opFpEq   // IEEE equality
	opFpOfBV // reinterpret bits (to_fp of bv)
	opFpToBV // bits of float: encoded with an auxiliary variable
	opFpIsNaN
	opFpFromSInt // p1 = dst width
	opFpFromUInt
	opFpToSInt // p1 = dst width (RTZ)
	opFpToUInt
	opFpToFp // p1 = dst width
	opUF     // uninterpreted function name(args)
)

var opNames = map[Op]string{
	opNot: "not", opAnd: "and", opOr: "or", opEq: "=", opIte: "ite",
	opBvAdd: "bvadd", opBvSub: "bvsub", opBvMul: "bvmul", opBvUDiv: "bvudiv", opBvURem: "bvurem",
	opBvSDiv: "bvsdiv", opBvSRem: "bvsrem", opBvAnd: "bvand", opBvOr: "bvor", opBvXor: "bvxor",
	opBvNot: "bvnot", opBvNeg: "bvneg", opBvShl: "bvshl", opBvLshr: "bvlshr", opBvAshr: "bvashr",
	opBvUlt: "bvult", opBvUle: "bvule", opBvSlt: "bvslt", opBvSle: "bvsle", opConcat: "concat",
	opFpAdd: "fp.add RNE", opFpSub: "fp.sub RNE", opFpMul: "fp.mul RNE", opFpDiv: "fp.div RNE", opFpNeg: "fp.neg",
	opFpLt: "fp.lt", opFpLe: "fp.leq", opFpEq: "fp.eq", opFpIsNaN: "fp.isNaN",
}

type Term struct {
	op     Op
	sort   Sort
	args   []*Term
	cval   uint64
	name   string
	p1, p2 int
	id     int
}

type termTable struct {
	tab   map[string]*Term
	terms []*Term
	ufs   map[string]string // uf name -> declaration
}

var tt = &termTable{tab: map[string]*Term{}, ufs: map[string]string{}}

func (t *termTable) intern(n *Term) *Term {
	var sb strings.Builder
	sb.WriteByte(byte(n.op))
	sb.WriteByte(byte(n.sort.K))
	sb.WriteString(strconv.Itoa(n.sort.W))
	sb.WriteByte('|')
	if n.op == opConst {
		sb.WriteString(strconv.FormatUint(n.cval, 16))
	}
	if n.name != "" {
		sb.WriteString(n.name)
	}
	if n.p1 != 0 || n.p2 != 0 {
		sb.WriteString(strconv.Itoa(n.p1))
		sb.WriteByte(',')
		sb.WriteString(strconv.Itoa(n.p2))
	}
	for _, a := range n.args {
		sb.WriteByte('.')
		sb.WriteString(strconv.Itoa(a.id))
	}
	k := sb.String()
	if e, ok := t.tab[k]; ok {
		return e
	}
	n.id = len(t.terms)
	t.terms = append(t.terms, n)
	t.tab[k] = n
	return n
}

func wmask(w int) uint64 {
	if w >= 64 {
		return ^uint64(0)
	}
	return (uint64(1) << uint(w)) - 1
}

func (t *Term) isConst() bool { return t.op == opConst }
func (t *Term) isTrue() bool  { return t.op == opConst && t.sort.K == sBool && t.cval == 1 }
func (t *Term) isFalse() bool { return t.op == opConst && t.sort.K == sBool && t.cval == 0 }

func mkBV(w int, v uint64) *Term {
	return tt.intern(&Term{op: opConst, sort: bvSort(w), cval: v & wmask(w)})
}
func mkBool(b bool) *Term {
	v := uint64(0)
	if b {
		v = 1
	}
	return tt.intern(&Term{op: opConst, sort: boolSort, cval: v})
}
func mkVar(name string, s Sort) *Term {
	return tt.intern(&Term{op: opVar, sort: s, name: name})
}
func mkFPConst(w int, bitsv uint64) *Term {
	return mkFpOfBV(mkBV(w, bitsv))
}

func signExt(v uint64, w int) int64 {
	if w >= 64 {
		return int64(v)
	}
	if v&(1<<uint(w-1)) != 0 {
		v |= ^wmask(w)
	}
	return int64(v)
}

func mkNot(a *Term) *Term {
	if a.isConst() {
		return mkBool(a.cval == 0)
	}
	if a.op == opNot {
		return a.args[0]
	}
	return tt.intern(&Term{op: opNot, sort: boolSort, args: []*Term{a}})
}

func mkAnd(a, b *Term) *Term {
	if a.isFalse() || b.isFalse() {
		return mkBool(false)
	}
	if a.isTrue() {
		return b
	}
	if b.isTrue() || a == b {
		return a
	}
	return tt.intern(&Term{op: opAnd, sort: boolSort, args: []*Term{a, b}})
}

func mkOr(a, b *Term) *Term {
	if a.isTrue() || b.isTrue() {
		return mkBool(true)
	}
	if a.isFalse() {
		return b
	}
	if b.isFalse() || a == b {
		return a
	}
	return tt.intern(&Term{op: opOr, sort: boolSort, args: []*Term{a, b}})
}

func mkEq(a, b *Term) *Term {
	if a == b {
		return mkBool(true)
	}
	if a.sort != b.sort {
		panic(fmt.Sprintf("mkEq sort mismatch %v %v", a.sort, b.sort))
	}
	if a.isConst() && b.isConst() {
		return mkBool(a.cval == b.cval)
	}
	if a.sort.K == sBool {
		if a.isConst() {
			a, b = b, a
		}
		if b.isTrue() {
			return a
		}
		if b.isFalse() {
			return mkNot(a)
		}
	}
	if a.sort.K == sBV {
		// (= (concat h l) c) etc. are left to the solver. Zero-extended compare with small const.
		if b.isConst() && a.op == opZext {
			iw := a.args[0].sort.W
			if b.cval > wmask(iw) {
				return mkBool(false)
			}
			return mkEq(a.args[0], mkBV(iw, b.cval))
		}
		if a.isConst() && b.op == opZext {
			return mkEq(b, a)
		}
		// ite with constant branches compared with a constant
		if b.isConst() && a.op == opIte && a.args[1].isConst() && a.args[2].isConst() {
			t1 := a.args[1].cval == b.cval
			t2 := a.args[2].cval == b.cval
			switch {
			case t1 && t2:
				return mkBool(true)
			case t1:
				return a.args[0]
			case t2:
				return mkNot(a.args[0])
			default:
				return mkBool(false)
			}
		}
	}
	if a.id > b.id {
		a, b = b, a
	}
	return tt.intern(&Term{op: opEq, sort: boolSort, args: []*Term{a, b}})
}

func mkIte(c, a, b *Term) *Term {
	if c.isTrue() {
		return a
	}
	if c.isFalse() {
		return b
	}
	if a == b {
		return a
	}
	if a.sort != b.sort {
		panic(fmt.Sprintf("mkIte sort mismatch %v %v", a.sort, b.sort))
	}
	if a.sort.K == sBool {
		if a.isTrue() && b.isFalse() {
			return c
		}
		if a.isFalse() && b.isTrue() {
			return mkNot(c)
		}
		if a.isTrue() {
			return mkOr(c, b)
		}
		if b.isFalse() {
			return mkAnd(c, a)
		}
		if a.isFalse() {
			return mkAnd(mkNot(c), b)
		}
		if b.isTrue() {
			return mkOr(mkNot(c), a)
		}
	}
	return tt.intern(&Term{op: opIte, sort: a.sort, args: []*Term{c, a, b}})
}

func foldBV(op Op, w int, x, y uint64) (uint64, bool) {
	m := wmask(w)
	x &= m
	y &= m
	switch op {
	case opBvAdd:
		return (x + y) & m, true
	case opBvSub:
		return (x - y) & m, true
	case opBvMul:
		return (x * y) & m, true
	case opBvAnd:
		return x & y, true
	case opBvOr:
		return x | y, true
	case opBvXor:
		return x ^ y, true
	case opBvUDiv:
		if y == 0 {
			return m, true
		}
		return x / y, true
	case opBvURem:
		if y == 0 {
			return x, true
		}
		return x % y, true
	case opBvSDiv:
		sx, sy := signExt(x, w), signExt(y, w)
		if sy == 0 {
			if sx >= 0 {
				return m, true
			}
			return 1, true
		}
		if sy == -1 {
			return uint64(-sx) & m, true
		}
		return uint64(sx/sy) & m, true
	case opBvSRem:
		sx, sy := signExt(x, w), signExt(y, w)
		if sy == 0 {
			return x, true
		}
		if sy == -1 {
			return 0, true
		}
		return uint64(sx%sy) & m, true
	case opBvShl:
		if y >= uint64(w) {
			return 0, true
		}
		return (x << y) & m, true
	case opBvLshr:
		if y >= uint64(w) {
			return 0, true
		}
		return x >> y, true
	case opBvAshr:
		sx := signExt(x, w)
		if y >= uint64(w) {
			y = uint64(w - 1)
		}
		return uint64(sx>>y) & m, true
	}
	return 0, false
}

func mkBvBin(op Op, a, b *Term) *Term {
	if a.sort != b.sort || a.sort.K != sBV {
		panic(fmt.Sprintf("mkBvBin %v sort mismatch %v %v", opNames[op], a.sort, b.sort))
	}
	w := a.sort.W
	if a.isConst() && b.isConst() {
		if v, ok := foldBV(op, w, a.cval, b.cval); ok {
			return mkBV(w, v)
		}
	}
	switch op {
	case opBvAdd, opBvOr, opBvXor:
		if a.isConst() && a.cval == 0 {
			return b
		}
		if b.isConst() && b.cval == 0 {
			return a
		}
		if op == opBvXor && a == b {
			return mkBV(w, 0)
		}
		if op == opBvOr && a == b {
			return a
		}
		if op == opBvOr || op == opBvXor || op == opBvAdd {
			// X | concat(H, 0_k)  =  concat(X[w-1:k] | H, X[k-1:0])   (byte re-assembly)
			for i := 0; i < 2; i++ {
				x, c := a, b
				if i == 1 {
					x, c = b, a
				}
				if hiC, k, ok := splitLowZeros(c); ok && (x.op == opZext || x.op == opConcat || x.op == opExtract) {
					hiX := mkExtract(x, w-1, k)
					if op == opBvAdd && !(hiX.isConst() && hiX.cval == 0) {
						continue
					}
					return mkConcat(mkBvBin(op, hiX, hiC), mkExtract(x, k-1, 0))
				}
			}
		}
	case opBvSub:
		if b.isConst() && b.cval == 0 {
			return a
		}
		if a == b {
			return mkBV(w, 0)
		}
		// x - c*(x div c)  =  x rem c   (truncated division, as in Go and SMT-LIB)
		if b.op == opBvMul {
			for i := 0; i < 2; i++ {
				c, q := b.args[i], b.args[1-i]
				if c.isConst() && c.cval != 0 && (q.op == opBvSDiv || q.op == opBvUDiv) && q.args[0] == a && q.args[1] == c {
					if q.op == opBvSDiv {
						return mkBvBin(opBvSRem, a, c)
					}
					return mkBvBin(opBvURem, a, c)
				}
			}
		}
	case opBvAnd:
		if a.isConst() && a.cval == 0 || b.isConst() && b.cval == 0 {
			return mkBV(w, 0)
		}
		if a.isConst() && a.cval == wmask(w) {
			return b
		}
		if b.isConst() && b.cval == wmask(w) {
			return a
		}
		if a == b {
			return a
		}
		// (x zext) & lowmask
		if b.isConst() && a.op == opZext && b.cval&wmask(a.args[0].sort.W) == wmask(a.args[0].sort.W) {
			return a
		}
	case opBvMul:
		if a.isConst() && a.cval == 1 {
			return b
		}
		if b.isConst() && b.cval == 1 {
			return a
		}
		if a.isConst() && a.cval == 0 || b.isConst() && b.cval == 0 {
			return mkBV(w, 0)
		}
	case opBvShl, opBvLshr, opBvAshr:
		if b.isConst() && b.cval == 0 {
			return a
		}
		if b.isConst() && b.cval >= uint64(w) && op != opBvAshr {
			return mkBV(w, 0)
		}
		// lshr of zext by >= inner width = 0; lshr by constant k: extract+zext
		if b.isConst() && op == opBvLshr {
			k := int(b.cval)
			return mkZext(mkExtract(a, w-1, k), k)
		}
		if b.isConst() && op == opBvShl {
			k := int(b.cval)
			return mkConcat(mkExtract(a, w-1-k, 0), mkBV(k, 0))
		}
	case opBvUDiv, opBvURem:
		if b.isConst() && b.cval != 0 && bits.OnesCount64(b.cval) == 1 {
			k := bits.TrailingZeros64(b.cval)
			if op == opBvUDiv {
				return mkBvBin(opBvLshr, a, mkBV(w, uint64(k)))
			}
			return mkBvBin(opBvAnd, a, mkBV(w, b.cval-1))
		}
	}
	if (op == opBvAdd || op == opBvMul || op == opBvAnd || op == opBvOr || op == opBvXor) && a.id > b.id {
		a, b = b, a
	}
	return tt.intern(&Term{op: op, sort: a.sort, args: []*Term{a, b}})
}

func mkBvNot(a *Term) *Term {
	if a.isConst() {
		return mkBV(a.sort.W, ^a.cval)
	}
	if a.op == opBvNot {
		return a.args[0]
	}
	return tt.intern(&Term{op: opBvNot, sort: a.sort, args: []*Term{a}})
}

func mkBvNeg(a *Term) *Term {
	if a.isConst() {
		return mkBV(a.sort.W, -a.cval)
	}
	return tt.intern(&Term{op: opBvNeg, sort: a.sort, args: []*Term{a}})
}

// upper bound on the unsigned value of a term, cheap syntactic analysis
func ubound(a *Term) uint64 {
	switch a.op {
	case opConst:
		return a.cval
	case opZext:
		return ubound(a.args[0])
	case opIte:
		x, y := ubound(a.args[1]), ubound(a.args[2])
		if x > y {
			return x
		}
		return y
	case opBvAnd:
		x, y := ubound(a.args[0]), ubound(a.args[1])
		if x < y {
			return x
		}
		return y
	case opConcat:
		hi := ubound(a.args[0])
		lw := a.args[1].sort.W
		if hi == 0 {
			return ubound(a.args[1])
		}
		if hi <= wmask(64-lw) {
			return hi<<uint(lw) | wmask(lw)
		}
	}
	return wmask(a.sort.W)
}

func mkBvCmp(op Op, a, b *Term) *Term {
	if a.sort != b.sort {
		panic(fmt.Sprintf("mkBvCmp sort mismatch %v %v", a.sort, b.sort))
	}
	w := a.sort.W
	if a.isConst() && b.isConst() {
		switch op {
		case opBvUlt:
			return mkBool(a.cval < b.cval)
		case opBvUle:
			return mkBool(a.cval <= b.cval)
		case opBvSlt:
			return mkBool(signExt(a.cval, w) < signExt(b.cval, w))
		case opBvSle:
			return mkBool(signExt(a.cval, w) <= signExt(b.cval, w))
		}
	}
	if a == b {
		return mkBool(op == opBvUle || op == opBvSle)
	}
	switch op {
	case opBvUlt:
		if b.isConst() && b.cval == 0 {
			return mkBool(false)
		}
		if b.isConst() && ubound(a) < b.cval {
			return mkBool(true)
		}
		if a.isConst() && ubound(b) <= a.cval {
			return mkBool(false)
		}
	case opBvUle:
		if a.isConst() && a.cval == 0 {
			return mkBool(true)
		}
		if b.isConst() && ubound(a) <= b.cval {
			return mkBool(true)
		}
		if a.isConst() && ubound(b) < a.cval {
			return mkBool(false)
		}
	case opBvSlt, opBvSle:
		// both operands provably non-negative: reduce to unsigned
		half := uint64(1) << uint(w-1)
		if ubound(a) < half && ubound(b) < half {
			if op == opBvSlt {
				return mkBvCmp(opBvUlt, a, b)
			}
			return mkBvCmp(opBvUle, a, b)
		}
	}
	return tt.intern(&Term{op: op, sort: boolSort, args: []*Term{a, b}})
}

func mkExtract(a *Term, hi, lo int) *Term {
	w := a.sort.W
	if lo == 0 && hi == w-1 {
		return a
	}
	if hi < lo || hi >= w {
		panic(fmt.Sprintf("mkExtract [%d:%d] of width %d", hi, lo, w))
	}
	nw := hi - lo + 1
	if a.isConst() {
		return mkBV(nw, a.cval>>uint(lo))
	}
	switch a.op {
	case opExtract:
		return mkExtract(a.args[0], a.p2+hi, a.p2+lo)
	case opZext, opSext:
		iw := a.args[0].sort.W
		if hi < iw {
			return mkExtract(a.args[0], hi, lo)
		}
		if lo >= iw && a.op == opZext {
			return mkBV(nw, 0)
		}
		if lo < iw && a.op == opZext {
			return mkZext(mkExtract(a.args[0], iw-1, lo), hi-iw+1)
		}
	case opConcat:
		lw := a.args[1].sort.W
		if hi < lw {
			return mkExtract(a.args[1], hi, lo)
		}
		if lo >= lw {
			return mkExtract(a.args[0], hi-lw, lo-lw)
		}
		return mkConcat(mkExtract(a.args[0], hi-lw, 0), mkExtract(a.args[1], lw-1, lo))
	case opBvAnd, opBvOr, opBvXor:
		return mkBvBin(a.op, mkExtract(a.args[0], hi, lo), mkExtract(a.args[1], hi, lo))
	case opBvNot:
		return mkBvNot(mkExtract(a.args[0], hi, lo))
	case opIte:
		if a.args[1].isConst() || a.args[2].isConst() {
			return mkIte(a.args[0], mkExtract(a.args[1], hi, lo), mkExtract(a.args[2], hi, lo))
		}
	case opBvAdd, opBvSub, opBvMul:
		if lo == 0 {
			return mkBvBin(a.op, mkExtract(a.args[0], hi, 0), mkExtract(a.args[1], hi, 0))
		}
	}
	return tt.intern(&Term{op: opExtract, sort: bvSort(nw), args: []*Term{a}, p1: hi, p2: lo})
}

func mkConcat(a, b *Term) *Term {
	w := a.sort.W + b.sort.W
	if a.isConst() && b.isConst() && w <= 64 {
		return mkBV(w, a.cval<<uint(b.sort.W)|b.cval)
	}
	if a.isConst() && a.cval == 0 {
		return mkZext(b, a.sort.W)
	}
	// concat(extract(x,h,m+1), extract(x,m,l)) = extract(x,h,l)
	if a.op == opExtract && b.op == opExtract && a.args[0] == b.args[0] && a.p2 == b.p1+1 {
		return mkExtract(a.args[0], a.p1, b.p2)
	}
	// whole-variable re-assembly: concat(extract(x,h,m+1), x') where x' is x[m:0] itself
	if a.op == opExtract && a.args[0] == b && false {
		return b
	}
	// concat(a, concat(b1, b2)) with a, b1 adjacent extracts: fuse the left pair first
	if a.op == opExtract && b.op == opConcat && b.args[0].op == opExtract && a.args[0] == b.args[0].args[0] && a.p2 == b.args[0].p1+1 {
		return mkConcat(mkExtract(a.args[0], a.p1, b.args[0].p2), b.args[1])
	}
	// concat(concat(a1, a2), b) with a2, b adjacent extracts
	if a.op == opConcat && a.args[1].op == opExtract && b.op == opExtract && a.args[1].args[0] == b.args[0] && a.args[1].p2 == b.p1+1 {
		return mkConcat(a.args[0], mkExtract(b.args[0], a.args[1].p1, b.p2))
	}
	// concat(zext(a'), b): keep zero bits on top
	if a.op == opZext {
		return mkZext(mkConcat(a.args[0], b), a.p1)
	}
	return tt.intern(&Term{op: opConcat, sort: bvSort(w), args: []*Term{a, b}})
}

func mkZext(a *Term, n int) *Term {
	if n == 0 {
		return a
	}
	if a.isConst() {
		return mkBV(a.sort.W+n, a.cval)
	}
	if a.op == opZext {
		return mkZext(a.args[0], a.p1+n)
	}
	return tt.intern(&Term{op: opZext, sort: bvSort(a.sort.W + n), args: []*Term{a}, p1: n})
}

func mkSext(a *Term, n int) *Term {
	if n == 0 {
		return a
	}
	if a.isConst() {
		return mkBV(a.sort.W+n, uint64(signExt(a.cval, a.sort.W)))
	}
	if a.op == opZext {
		return mkZext(a.args[0], a.p1+n)
	}
	if ubound(a) < uint64(1)<<uint(a.sort.W-1) {
		return mkZext(a, n)
	}
	return tt.intern(&Term{op: opSext, sort: bvSort(a.sort.W + n), args: []*Term{a}, p1: n})
}

// ---- floating point ----

func fpSort(w int) Sort { return Sort{sFP, w} }

func mkFpOfBV(a *Term) *Term {
	if a.op == opFpToBV {
		return a.args[0]
	}
	return tt.intern(&Term{op: opFpOfBV, sort: fpSort(a.sort.W), args: []*Term{a}})
}

// mkFpToBV: IEEE bit pattern of a float. SMT-LIB has no total function for
// this; the solver layer introduces it through an auxiliary variable b with
// (= (to_fp b) x). NaN payloads are therefore unconstrained (as in hardware they
// are implementation-defined).
func mkFpToBV(a *Term) *Term {
	if a.op == opFpOfBV {
		return a.args[0]
	}
	return tt.intern(&Term{op: opFpToBV, sort: bvSort(a.sort.W), args: []*Term{a}})
}

func fpConstVal(a *Term) (float64, bool) {
	if a.op == opFpOfBV && a.args[0].isConst() {
		if a.sort.W == 32 {
			return float64(math.Float32frombits(uint32(a.args[0].cval))), true
		}
		return math.Float64frombits(a.args[0].cval), true
	}
	return 0, false
}

func mkFpFromFloat(w int, f float64) *Term {
	if w == 32 {
		return mkFPConst(32, uint64(math.Float32bits(float32(f))))
	}
	return mkFPConst(64, math.Float64bits(f))
}

func mkFpBin(op Op, a, b *Term) *Term {
	if x, ok := fpConstVal(a); ok {
		if y, ok := fpConstVal(b); ok {
			var r float64
			w := a.sort.W
			if w == 32 {
				x32, y32 := float32(x), float32(y)
				switch op {
				case opFpAdd:
					r = float64(x32 + y32)
				case opFpSub:
					r = float64(x32 - y32)
				case opFpMul:
					r = float64(x32 * y32)
				case opFpDiv:
					r = float64(x32 / y32)
				}
			} else {
				switch op {
				case opFpAdd:
					r = x + y
				case opFpSub:
					r = x - y
				case opFpMul:
					r = x * y
				case opFpDiv:
					r = x / y
				}
			}
			return mkFpFromFloat(w, r)
		}
	}
	return tt.intern(&Term{op: op, sort: a.sort, args: []*Term{a, b}})
}

func mkFpCmp(op Op, a, b *Term) *Term {
	if x, ok := fpConstVal(a); ok {
		if y, ok := fpConstVal(b); ok {
			switch op {
			case opFpLt:
				return mkBool(x < y)
			case opFpLe:
				return mkBool(x <= y)
			case opFpEq:
				return mkBool(x == y)
			}
		}
	}
	return tt.intern(&Term{op: op, sort: boolSort, args: []*Term{a, b}})
}

func mkFpUn(op Op, a *Term, s Sort, p1 int) *Term {
	return tt.intern(&Term{op: op, sort: s, args: []*Term{a}, p1: p1})
}

func mkUF(name string, ret Sort, args ...*Term) *Term {
	if _, ok := tt.ufs[name]; !ok {
		var as []string
		for _, a := range args {
			as = append(as, a.sort.String())
		}
		tt.ufs[name] = fmt.Sprintf("(declare-fun %s (%s) %s)", name, strings.Join(as, " "), ret)
	}
	return tt.intern(&Term{op: opUF, sort: ret, args: args, name: name})
}

// ---- printing ----

func (t *Term) ref() string {
	switch t.op {
	case opConst:
		if t.sort.K == sBool {
			if t.cval == 1 {
				return "true"
			}
			return "false"
		}
		if t.sort.W%4 == 0 {
			return fmt.Sprintf("#x%0*x", t.sort.W/4, t.cval)
		}
		return fmt.Sprintf("(_ bv%d %d)", t.cval, t.sort.W)
	case opVar:
		return t.name
	}
	return "t!" + strconv.Itoa(t.id)
}

// body prints the defining expression of a non-leaf term, children by reference.
func (t *Term) body() string {
	a := func(i int) string { return t.args[i].ref() }
	switch t.op {
	case opExtract:
		return fmt.Sprintf("((_ extract %d %d) %s)", t.p1, t.p2, a(0))
	case opZext:
		return fmt.Sprintf("((_ zero_extend %d) %s)", t.p1, a(0))
	case opSext:
		return fmt.Sprintf("((_ sign_extend %d) %s)", t.p1, a(0))
	case opFpOfBV:
		if t.sort.W == 32 {
			return fmt.Sprintf("((_ to_fp 8 24) %s)", a(0))
		}
		return fmt.Sprintf("((_ to_fp 11 53) %s)", a(0))
	case opFpFromSInt, opFpFromUInt, opFpToFp:
		eb, sb := 11, 53
		if t.sort.W == 32 {
			eb, sb = 8, 24
		}
		f := "to_fp"
		if t.op == opFpFromUInt {
			f = "to_fp_unsigned"
		}
		return fmt.Sprintf("((_ %s %d %d) RNE %s)", f, eb, sb, a(0))
	case opFpToSInt:
		return fmt.Sprintf("((_ fp.to_sbv %d) RTZ %s)", t.sort.W, a(0))
	case opFpToUInt:
		return fmt.Sprintf("((_ fp.to_ubv %d) RTZ %s)", t.sort.W, a(0))
	case opUF:
		var as []string
		for i := range t.args {
			as = append(as, a(i))
		}
		return "(" + t.name + " " + strings.Join(as, " ") + ")"
	case opFpToBV:
		panic("fp.to_bv is introduced by the solver layer")
	}
	n, ok := opNames[t.op]
	if !ok {
		panic(fmt.Sprintf("no name for op %d", t.op))
	}
	var sb strings.Builder
	sb.WriteByte('(')
	sb.WriteString(n)
	for i := range t.args {
		sb.WriteByte(' ')
		sb.WriteString(a(i))
	}
	sb.WriteByte(')')
	return sb.String()
}

// ---- concrete evaluation under a model ----

type Model map[string]uint64

func fbits(w int, f float64) uint64 {
	if w == 32 {
		return uint64(math.Float32bits(float32(f)))
	}
	return math.Float64bits(f)
}
func bitsf(w int, b uint64) float64 {
	if w == 32 {
		return float64(math.Float32frombits(uint32(b)))
	}
	return math.Float64frombits(b)
}

// eval returns the value of t (BV: the bits; Bool: 0/1; FP: the IEEE bits).
func (m Model) eval(t *Term, memo map[*Term]uint64) uint64 {
	if t.op == opConst {
		return t.cval
	}
	if v, ok := memo[t]; ok {
		return v
	}
	e := func(i int) uint64 { return m.eval(t.args[i], memo) }
	b2u := func(b bool) uint64 {
		if b {
			return 1
		}
		return 0
	}
	var r uint64
	switch t.op {
	case opVar:
		r = m[t.name] & wmaskSort(t.sort)
	case opNot:
		r = 1 - e(0)
	case opAnd:
		r = e(0) & e(1)
	case opOr:
		r = e(0) | e(1)
	case opEq:
		r = b2u(e(0) == e(1))
	case opIte:
		if e(0) == 1 {
			r = e(1)
		} else {
			r = e(2)
		}
	case opBvNot:
		r = ^e(0) & wmask(t.sort.W)
	case opBvNeg:
		r = -e(0) & wmask(t.sort.W)
	case opBvUlt:
		r = b2u(e(0) < e(1))
	case opBvUle:
		r = b2u(e(0) <= e(1))
	case opBvSlt:
		w := t.args[0].sort.W
		r = b2u(signExt(e(0), w) < signExt(e(1), w))
	case opBvSle:
		w := t.args[0].sort.W
		r = b2u(signExt(e(0), w) <= signExt(e(1), w))
	case opExtract:
		r = (e(0) >> uint(t.p2)) & wmask(t.p1-t.p2+1)
	case opConcat:
		r = e(0)<<uint(t.args[1].sort.W) | e(1)
	case opZext:
		r = e(0)
	case opSext:
		r = uint64(signExt(e(0), t.args[0].sort.W)) & wmask(t.sort.W)
	case opFpOfBV, opFpToBV:
		r = e(0)
	case opFpAdd, opFpSub, opFpMul, opFpDiv:
		w := t.sort.W
		x, y := bitsf(w, e(0)), bitsf(w, e(1))
		var f float64
		if w == 32 {
			x32, y32 := float32(x), float32(y)
			switch t.op {
			case opFpAdd:
				f = float64(x32 + y32)
			case opFpSub:
				f = float64(x32 - y32)
			case opFpMul:
				f = float64(x32 * y32)
			default:
				f = float64(x32 / y32)
			}
		} else {
			switch t.op {
			case opFpAdd:
				f = x + y
			case opFpSub:
				f = x - y
			case opFpMul:
				f = x * y
			default:
				f = x / y
			}
		}
		r = fbits(w, f)
	case opFpNeg:
		r = e(0) ^ (uint64(1) << uint(t.sort.W-1))
	case opFpLt:
		w := t.args[0].sort.W
		r = b2u(bitsf(w, e(0)) < bitsf(w, e(1)))
	case opFpLe:
		w := t.args[0].sort.W
		r = b2u(bitsf(w, e(0)) <= bitsf(w, e(1)))
	case opFpEq:
		w := t.args[0].sort.W
		r = b2u(bitsf(w, e(0)) == bitsf(w, e(1)))
	case opFpIsNaN:
		f := bitsf(t.args[0].sort.W, e(0))
		r = b2u(f != f)
	case opFpFromSInt:
		r = fbits(t.sort.W, float64(signExt(e(0), t.args[0].sort.W)))
	case opFpFromUInt:
		r = fbits(t.sort.W, float64(e(0)))
	case opFpToSInt:
		r = uint64(int64(bitsf(t.args[0].sort.W, e(0)))) & wmask(t.sort.W)
	case opFpToUInt:
		r = uint64(bitsf(t.args[0].sort.W, e(0))) & wmask(t.sort.W)
	case opFpToFp:
		r = fbits(t.sort.W, bitsf(t.args[0].sort.W, e(0)))
	case opUF:
		panic(evalUF{})
	default:
		v, ok := foldBV(t.op, t.sort.W, e(0), e(1))
		if !ok {
			panic(fmt.Sprintf("eval: op %d", t.op))
		}
		r = v
	}
	memo[t] = r
	return r
}

type evalUF struct{}

func wmaskSort(s Sort) uint64 {
	switch s.K {
	case sBool:
		return 1
	default:
		return wmask(s.W)
	}
}

// vars collects the variables of a term.
func (t *Term) vars(seen map[*Term]bool, out map[string]Sort) {
	if seen[t] {
		return
	}
	seen[t] = true
	if t.op == opVar {
		out[t.name] = t.sort
	}
	for _, a := range t.args {
		a.vars(seen, out)
	}
}

// termString renders a term as a nested expression up to the given depth (diagnostics).
func termString(t *Term, depth int) string {
	if t.op == opConst || t.op == opVar {
		return t.ref()
	}
	if depth == 0 {
		return "…"
	}
	var parts []string
	for _, a := range t.args {
		parts = append(parts, termString(a, depth-1))
	}
	name := opNames[t.op]
	switch t.op {
	case opExtract:
		name = fmt.Sprintf("extract[%d:%d]", t.p1, t.p2)
	case opZext:
		name = fmt.Sprintf("zext%d", t.p1)
	case opSext:
		name = fmt.Sprintf("sext%d", t.p1)
	case opUF:
		name = t.name
	}
	return "(" + name + " " + strings.Join(parts, " ") + ")"
}

// splitLowZeros recognises t = concat(H, 0_k) (possibly under zero extension).
func splitLowZeros(t *Term) (*Term, int, bool) {
	switch t.op {
	case opConcat:
		if t.args[1].isConst() && t.args[1].cval == 0 {
			return t.args[0], t.args[1].sort.W, true
		}
	case opZext:
		if h, k, ok := splitLowZeros(t.args[0]); ok {
			return mkZext(h, t.p1), k, true
		}
	}
	return nil, 0, false
}
