package main

// Harness API interception, obligations, known-finding regions, and the
// path exploration driver (depth-first by re-execution).

import (
	"fmt"
	"go/types"
	"os"
	"sort"
	"strings"
	"time"

	"golang.org/x/tools/go/ssa"
)

var prefixDepth = func() int { n := 0; fmt.Sscanf(os.Getenv("GOSYM_PREFIX"), "%d", &n); return n }()
var prefixCounts = map[string]int{}

const verifPkg = "github.com/dtn7/dtn7-go/pkg/zzverif"

type HarnessCfg struct {
	Name          string   `json:"name"`
	Pkg           string   `json:"pkg"` // import path of the package the harness lives in
	Tiers         []string `json:"tiers"`
	EnumCap       int      `json:"enum_cap"`
	Budget        int64    `json:"budget"`    // SSA instructions per path
	MaxPaths      int      `json:"max_paths"` // 0 = unlimited
	MapOrder      int      `json:"map_order"`
	CRC           string   `json:"crc"` // real | bitwise | uf
	FPMulAbstract bool     `json:"fp_mul_abstract"`
	MaxVirtualNs  int64    `json:"max_virtual_ns"`
	TimeoutMs     int      `json:"timeout_ms"`
	UnwindIsHang  bool     `json:"unwind_is_hang"` // C04: an exhausted budget is a violation
	AllocPolicy   bool     `json:"alloc_policy"`   // C04 allocation obligations
	YieldOnUnlock  bool    `json:"yield_on_unlock"`
	YieldOnSyncMap bool    `json:"yield_on_syncmap"`
	YieldOnStore   bool    `json:"yield_on_store"`
	ExpectReach   []string `json:"expect_reach"`
	Samples       int      `json:"samples"`
	Env           map[string]string `json:"env"` // harness parameters readable through verif.Param
	Note          string   `json:"note"`
	Prefer        string   `json:"prefer"` // "cvc5": ask cvc5 (bv-as-int) before z3
}

type Violation struct {
	Harness string            `json:"harness"`
	Kind    string            `json:"kind"` // assert | panic | hang | deadlock | alloc
	Label   string            `json:"label"`
	Detail  string            `json:"detail,omitempty"`
	Known   string            `json:"known,omitempty"`
	Scalars map[string]uint64 `json:"scalars"`
	Bytes   map[string][]byte `json:"bytes"`
	Trail   string            `json:"trail"`
	Observed map[string][]string `json:"observed,omitempty"`
	// filled by the replay step
	Confirmed   bool   `json:"confirmed"`
	ReplayNote  string `json:"replay_note,omitempty"`
	ReplayFile  string `json:"replay_file,omitempty"`
	Inconclusive bool  `json:"inconclusive,omitempty"`
}

type Sample struct {
	Harness  string              `json:"harness"`
	Scalars  map[string]uint64   `json:"scalars"`
	Bytes    map[string][]byte   `json:"bytes"`
	Reach    []string            `json:"reach"`
	Observed map[string][]string `json:"observed"`
	Trail    string              `json:"decision_vector"`
	Instrs   int64               `json:"ssa_instructions"`
}

type HarnessResult struct {
	Name            string
	Cfg             *HarnessCfg
	Paths           int // completed feasible paths
	PanicPaths      int
	AssumeCut       int
	Infeasible      int
	Unsupported     int
	UnsupportedMsgs map[string]int
	Unwind          int
	Deadlocks       int
	Inconclusive    int
	CapHits         int
	UnknownBranches int
	Obligations     int
	Proved          int
	AbsDecided      int // branches decided by the interval/known-bits domain without a query
	AbsProved       int // obligations proved by it
	Instrs          int64
	Decisions       int
	Violations      []Violation
	KnownHits       map[string]*Violation
	Reach           map[string]int
	Samples         []Sample
	Notes           []string
	FuncInstrs      map[string]int64
	Wall            float64
	PathLimitHit    bool
	seenViol        map[string]bool
	noteSeen        map[string]bool
}

func (r *HarnessResult) note(f string, a ...interface{}) {
	s := fmt.Sprintf(f, a...)
	if r.noteSeen == nil {
		r.noteSeen = map[string]bool{}
	}
	if !r.noteSeen[s] {
		r.noteSeen[s] = true
		r.Notes = append(r.Notes, s)
	}
}

type inputVar struct {
	name string
	kind string // scalar | bytes
	term *Term
	elts []value
}

type knownRegion struct {
	id   string
	cond *Term
}

type obsRec struct {
	name string
	vals []value
}

type pathState struct {
	instrs       int64
	budget       int64
	decisions    int
	inconclusive bool
	calls        map[*ssa.Function]int
	inputs       []inputVar
	inputNames   map[string]bool
	reach        []string
	observes     []obsRec
	known        []knownRegion
	fpMuls       int
	inputLen     int
	siteForks    map[ssa.Instruction]int // loop policy: decisions per branch site on this path
	pools        map[*value][]value      // sync.Pool model: free lists
	tempDirs     int
	envCalls     int // environment (store/file) calls made on this path
	crashAt      int // simulated kill at this environment call (0 = none)
	abs          *absState
	model        Model // cached model of the current path condition (nil = none)
}

func (in *Interp) registerInput(iv inputVar) {
	if in.run.inputNames[iv.name] {
		fatalf("harness %s: input name %q used twice on one path", in.cfg.Name, iv.name)
	}
	in.run.inputNames[iv.name] = true
	in.run.inputs = append(in.run.inputs, iv)
}

func concStr(v value, what string) string {
	s, ok := v.(string)
	if !ok {
		fatalf("verif API: %s must be a concrete string, got %T", what, v)
	}
	return s
}

func (in *Interp) symScalar(name string, w int) *Term {
	t := mkVar("v!"+name, bvSort(w))
	in.registerInput(inputVar{name: name, kind: "scalar", term: t})
	return t
}

// verifIntrinsic dispatches calls into the zzverif package.
func (in *Interp) verifIntrinsic(name string) intrinsic {
	switch name {
	case "U8", "U16", "U32", "U64":
		w := map[string]int{"U8": 8, "U16": 16, "U32": 32, "U64": 64}[name]
		return func(in *Interp, fr *frame, args []value) value {
			return in.symScalar(concStr(args[0], "name"), w)
		}
	case "Bool":
		return func(in *Interp, fr *frame, args []value) value {
			t := in.symScalar(concStr(args[0], "name"), 1)
			return mkEq(t, mkBV(1, 1))
		}
	case "F64":
		return func(in *Interp, fr *frame, args []value) value {
			return mkFpOfBV(in.symScalar(concStr(args[0], "name"), 64))
		}
	case "Int", "Size", "Choose":
		return func(in *Interp, fr *frame, args []value) value {
			nm := concStr(args[0], "name")
			var lo, hi int64
			if name == "Choose" {
				lo, hi = 0, asInt64(args[1])-1
			} else {
				lo, hi = asInt64(args[1]), asInt64(args[2])
			}
			if lo > hi {
				abort(abAssume, "empty range")
			}
			if lo == hi {
				// still an input so that the native twin finds it
				t := in.symScalar(nm, 64)
				in.assume(mkEq(t, mkBV(64, uint64(lo))), false)
				return int(lo)
			}
			t := in.symScalar(nm, 64)
			in.assume(mkAnd(mkBvCmp(opBvSle, mkBV(64, uint64(lo)), t), mkBvCmp(opBvSle, t, mkBV(64, uint64(hi)))), false)
			if name == "Int" {
				return t
			}
			return int(in.enumerate(t, nm, int(hi-lo+1)))
		}
	case "Bytes", "ASCII":
		return func(in *Interp, fr *frame, args []value) value {
			nm := concStr(args[0], "name")
			n := int(asInt64(args[1]))
			elts := make([]value, n)
			for i := range elts {
				elts[i] = mkVar(fmt.Sprintf("v!%s_%d", nm, i), bvSort(8))
			}
			in.registerInput(inputVar{name: nm, kind: "bytes", elts: elts})
			if name == "ASCII" {
				c := mkBool(true)
				for _, e := range elts {
					c = mkAnd(c, mkBvCmp(opBvUlt, e.(*Term), mkBV(8, 0x80)))
				}
				in.assume(c, false)
				return mkString(elts)
			}
			return append([]value(nil), elts...)
		}
	case "Assume":
		return func(in *Interp, fr *frame, args []value) value {
			in.assume(toTerm(args[0]), true)
			return nil
		}
	case "Assert":
		return func(in *Interp, fr *frame, args []value) value {
			in.obligation(toTerm(args[0]), concStr(args[1], "label"), "assert")
			return nil
		}
	case "Reach":
		return func(in *Interp, fr *frame, args []value) value {
			in.run.reach = append(in.run.reach, concStr(args[0], "label"))
			return nil
		}
	case "Known":
		return func(in *Interp, fr *frame, args []value) value {
			id := concStr(args[0], "id")
			if kf, ok := knownFindings[id]; ok && kf.Status == "known" {
				in.run.known = append(in.run.known, knownRegion{id, toTerm(args[1])})
			}
			return nil
		}
	case "Observe":
		return func(in *Interp, fr *frame, args []value) value {
			var vals []value
			for _, v := range args[1].([]value) {
				vals = append(vals, v.(iface).v)
			}
			in.run.observes = append(in.run.observes, obsRec{concStr(args[0], "name"), vals})
			return nil
		}
	case "Ite64", "IteInt", "IteBool":
		return func(in *Interp, fr *frame, args []value) value {
			if c, ok := args[0].(bool); ok {
				if c {
					return args[1]
				}
				return args[2]
			}
			r := mkIte(args[0].(*Term), toTerm(args[1]), toTerm(args[2]))
			return in.fromTermLike(concSample(args[1], args[2]), r)
		}
	case "And", "Or":
		return func(in *Interp, fr *frame, args []value) value {
			var r value = name == "And"
			for _, c := range args[0].([]value) {
				if name == "And" {
					r = andV(r, c)
				} else {
					r = orV(r, c)
				}
			}
			return r
		}
	case "Not":
		return func(in *Interp, fr *frame, args []value) value { return notV(args[0]) }
	case "Implies":
		return func(in *Interp, fr *frame, args []value) value { return orV(notV(args[0]), args[1]) }
	case "Iff":
		return func(in *Interp, fr *frame, args []value) value {
			return termOrBool(mkEq(toTerm(args[0]), toTerm(args[1])))
		}
	case "InputLen":
		return func(in *Interp, fr *frame, args []value) value {
			in.run.inputLen = int(asInt64(args[0]))
			return nil
		}
	case "Yield":
		return func(in *Interp, fr *frame, args []value) value {
			in.sched.yield()
			return nil
		}
	case "Concrete64", "ConcreteInt":
		return func(in *Interp, fr *frame, args []value) value {
			if t, ok := args[0].(*Term); ok {
				v := in.enumerate(t, "Concrete", 0)
				if name == "ConcreteInt" {
					return int(v)
				}
				return uint64(v)
			}
			return args[0]
		}
	case "Param":
		return func(in *Interp, fr *frame, args []value) value {
			nm := concStr(args[0], "name")
			v := int(asInt64(args[1]))
			if sv, ok := in.cfg.Env[nm]; ok {
				fmt.Sscanf(sv, "%d", &v)
			}
			if !in.run.inputNames["param!"+nm] {
				in.registerInput(inputVar{name: "param!" + nm, kind: "scalar", term: mkBV(64, uint64(v))})
			}
			return v
		}
	case "TempDir":
		return func(in *Interp, fr *frame, args []value) value {
			in.run.tempDirs++
			return fmt.Sprintf("/model/%s-%d", concStr(args[0], "name"), in.run.tempDirs)
		}
	case "Symbolic":
		return func(in *Interp, fr *frame, args []value) value { return true }
	case "RunCase", "RunFile":
		return func(in *Interp, fr *frame, args []value) value {
			abort(abUnsupported, "zzverif."+name+" under the engine")
			return nil
		}
	}
	return nil
}

func concSample(a, b value) value {
	if _, ok := a.(*Term); !ok {
		return a
	}
	return b
}

// activeRegion returns the disjunction of the known-finding regions of this path.
func (in *Interp) activeRegion() *Term {
	r := mkBool(false)
	for _, k := range in.run.known {
		r = mkOr(r, k.cond)
	}
	return r
}

// inputsModel extracts the named inputs from a solver model.
func (in *Interp) inputsModel(m Model) (map[string]uint64, map[string][]byte) {
	sc := map[string]uint64{}
	by := map[string][]byte{}
	memo := map[*Term]uint64{}
	for _, iv := range in.run.inputs {
		if iv.kind == "scalar" {
			sc[iv.name] = m.eval(iv.term, memo)
		} else {
			b := make([]byte, len(iv.elts))
			for i, e := range iv.elts {
				b[i] = byte(m.eval(e.(*Term), memo))
			}
			by[iv.name] = b
		}
	}
	return sc, by
}

func (in *Interp) trailString() string {
	var sb strings.Builder
	for i, d := range in.trail {
		if i >= in.pos {
			break
		}
		switch d.kind {
		case 'b':
			if d.choice == 0 {
				sb.WriteByte('T')
			} else {
				sb.WriteByte('F')
			}
		case 'e':
			fmt.Fprintf(&sb, "[%d]", signExt(d.vals[d.choice], 64))
		case 'a':
			sb.WriteByte('.')
		}
	}
	return sb.String()
}

// recordViolation queries "pc ∧ extra" restricted to outside/inside the known
// regions and records what it finds. extra may be nil (the path itself is the violation).
func (in *Interp) recordViolation(extra *Term, kind, label, detail string) {
	s := in.solver
	in.res.Obligations++
	region := in.activeRegion()
	// outside every known region
	s.push()
	if extra != nil {
		s.assert(extra)
	}
	if !region.isFalse() {
		s.assert(mkNot(region))
	}
	r := s.check()
	key := kind + "|" + label
	switch r {
	case resSat:
		if !in.res.seenViol[key] {
			in.res.seenViol[key] = true
			m := s.model()
			sc, by := in.inputsModel(m)
			in.res.Violations = append(in.res.Violations, Violation{Harness: in.cfg.Name, Kind: kind, Label: label, Detail: detail, Scalars: sc, Bytes: by, Trail: in.trailString(), Observed: in.observedUnder(m)})
		}
	case resUnknown:
		if !in.res.seenViol["?"+key] {
			in.res.seenViol["?"+key] = true
			in.res.Violations = append(in.res.Violations, Violation{Harness: in.cfg.Name, Kind: kind, Label: label, Detail: "solver returned unknown: " + detail, Inconclusive: true, Trail: in.trailString()})
		}
	default:
		if region.isFalse() {
			in.res.Proved++
		}
	}
	s.pop(1)
	// inside each known region
	for _, k := range in.run.known {
		if _, seen := in.res.KnownHits[k.id+"|"+key]; seen {
			continue
		}
		s.push()
		if extra != nil {
			s.assert(extra)
		}
		s.assert(k.cond)
		if s.check() == resSat {
			m := s.model()
			sc, by := in.inputsModel(m)
			in.res.KnownHits[k.id+"|"+key] = &Violation{Harness: in.cfg.Name, Kind: kind, Label: label, Detail: detail, Known: k.id, Scalars: sc, Bytes: by, Trail: in.trailString()}
		}
		s.pop(1)
	}
}

// obligation checks that c holds on the current path for every input.
func (in *Interp) obligation(c *Term, label, kind string) {
	if kind == "" {
		kind = "assert"
	}
	if in.pos < len(in.trail) {
		// replayed prefix: already checked in the run that created the prefix
		if c.isFalse() {
			abort(abViolation, label)
		}
		if !c.isTrue() {
			// keep the trail aligned: an assume entry was added iff a violation was found
			if in.trail[in.pos].kind == 'a' && in.obligationAssumed[obKey{in.pos, c.id}] {
				in.assume(c, false)
			}
		}
		return
	}
	if c.isTrue() {
		in.res.Obligations++
		in.res.Proved++
		return
	}
	if in.run.abs.cond(c) == 1 {
		in.res.Obligations++
		in.res.Proved++
		in.res.AbsProved++
		return
	}
	nv := len(in.res.Violations)
	nk := len(in.res.KnownHits)
	in.recordViolation(mkNot(c), kind, label, "")
	if c.isFalse() {
		abort(abViolation, label)
	}
	if len(in.res.Violations) != nv || len(in.res.KnownHits) != nk || in.res.seenViol[kind+"|"+label] || in.hasKnownHit(kind+"|"+label) {
		// continue with the inputs for which the assertion holds
		in.obligationAssumed[obKey{in.pos, c.id}] = true
		in.assume(c, true)
	}
}

type obKey struct{ pos, id int }

func (in *Interp) hasKnownHit(key string) bool {
	for k := range in.res.KnownHits {
		if strings.HasSuffix(k, "|"+key) {
			return true
		}
	}
	return false
}

// ---- allocation policy (C04) ----

func (in *Interp) allocLimit() int64 {
	lim := int64(1 << 20)
	if l := int64(in.run.inputLen) * 64; l > lim {
		lim = l
	}
	return lim
}

func elemSize(t types.Type) int64 {
	switch t := t.Underlying().(type) {
	case *types.Basic:
		switch t.Kind() {
		case types.Bool, types.Int8, types.Uint8:
			return 1
		case types.Int16, types.Uint16:
			return 2
		case types.Int32, types.Uint32, types.Float32:
			return 4
		case types.String:
			return 16
		}
		return 8
	case *types.Struct:
		var n int64
		for i := 0; i < t.NumFields(); i++ {
			n += elemSize(t.Field(i).Type())
		}
		if n == 0 {
			n = 1
		}
		return n
	case *types.Array:
		return t.Len() * elemSize(t.Elem())
	case *types.Interface, *types.Slice:
		return 16
	}
	return 8
}

// makeSize concretises the len/cap of a make([]T, len, cap), applying the
// allocation obligations: a negative or huge size panics in Go (implicit
// obligation); with AllocPolicy, a size above the policy limit that depends on
// symbolic input is a violation.
func (in *Interp) makeSize(lenV, capV value, lenUnsigned bool, elt types.Type, pos string) (int, int) {
	es := elemSize(elt)
	conc := func(v value, what string) int64 {
		t, ok := v.(*Term)
		if !ok {
			n := asInt64(v)
			if n < 0 || n > (1<<48)/es {
				rtPanic("makeslice: " + what + " out of range")
			}
			return n
		}
		// Go panics for len < 0 or len*size > maxAlloc
		t64 := t
		if t.sort.W < 64 {
			if lenUnsigned {
				t64 = mkZext(t, 64-t.sort.W)
			} else {
				t64 = mkSext(t, 64-t.sort.W)
			}
		}
		tooBig := mkNot(mkBvCmp(opBvUle, t64, mkBV(64, uint64((1<<48)/es))))
		if in.branch(tooBig) {
			rtPanic("makeslice: " + what + " out of range")
		}
		lim := in.allocLimit() / es
		if in.cfg.AllocPolicy {
			over := mkNot(mkBvCmp(opBvUle, t64, mkBV(64, uint64(lim))))
			if in.branch(over) {
				// report a clearly oversized instance if there is one (the native replay
				// measures allocated bytes with some slack)
				big := mkBvCmp(opBvUle, mkBV(64, uint64((64<<20)/es)), t64)
				sv := in.solver
				sv.push()
				sv.assert(big)
				rb := sv.check()
				sv.pop(1)
				if rb == resSat {
					in.assume(big, false)
				}
				in.recordViolation(nil, "alloc", "allocation sized by input: "+pos, fmt.Sprintf("make of more than %d bytes with a size taken from the input (element size %d)", in.allocLimit(), es))
				abort(abViolation, "alloc policy")
			}
		}
		// sizes beyond the declared input length behave alike for readers
		// (io.ReadFull fails): represent them by the smallest such value.
		if in.run.inputLen > 0 {
			beyond := mkNot(mkBvCmp(opBvUle, t64, mkBV(64, uint64(in.run.inputLen))))
			if in.branch(beyond) {
				in.res.note("sizes beyond the input length (%d) are represented by one value (abstraction, DESIGN 5/C04)", in.run.inputLen)
				rep := int64(in.run.inputLen) + 1
				s := in.solver
				// pick the smallest feasible value > inputLen: try inputLen+1, else any model
				if in.branch(mkEq(t64, mkBV(64, uint64(rep)))) {
					return rep
				}
				s.push()
				r := s.check()
				var v int64
				if r == resSat {
					v = int64(s.model().eval(t64, map[*Term]uint64{}))
				}
				s.pop(1)
				if r != resSat {
					abort(abInfeasible, "size")
				}
				in.assume(mkEq(t64, mkBV(64, uint64(v))), false)
				if v > 1<<24 {
					abort(abUnsupported, "representative allocation too large to execute")
				}
				return v
			}
		}
		return in.enumerate(t64, what+" at "+pos, 0)
	}
	l := conc(lenV, "len")
	c := l
	if capV != nil {
		if _, ok := capV.(*Term); ok || asInt64(capV) != l {
			c = conc(capV, "cap")
		}
	}
	if c < l {
		rtPanic("makeslice: cap out of range")
	}
	if c*es > 1<<28 {
		if in.cfg.AllocPolicy {
			in.recordViolation(nil, "alloc", "allocation sized by input: "+pos, fmt.Sprintf("make of %d bytes", c*es))
			abort(abViolation, "alloc policy")
		}
		abort(abUnsupported, fmt.Sprintf("allocation of %d bytes", c*es))
	}
	return int(l), int(c)
}

func (in *Interp) allocCheckConcrete(n int, pos string) {
	if n > 1<<26 {
		if in.cfg.AllocPolicy {
			in.recordViolation(nil, "alloc", "append growth: "+pos, fmt.Sprintf("slice grown to %d elements", n))
			abort(abViolation, "alloc policy")
		}
		abort(abUnsupported, "slice grown very large")
	}
}

// ---- driver ----

func (in *Interp) resetPath() {
	in.pos = 0
	in.run = &pathState{
		budget:     in.cfg.Budget,
		calls:      map[*ssa.Function]int{},
		inputNames: map[string]bool{},
		abs:        newAbsState(),
		model:      Model{},
	}
	in.sched = newScheduler(in)
	in.resetEnvModels()
	if in.snap != nil {
		in.restoreGlobals()
	}
}

type pathOutcome struct {
	kind  string // done | panic | abort
	abort pathAbort
	panic targetPanic
}

func (in *Interp) runOnce(fn *ssa.Function) (out pathOutcome) {
	defer func() {
		r := recover()
		switch p := r.(type) {
		case nil:
			out.kind = "done"
		case pathAbort:
			out.kind, out.abort = "abort", p
		case targetPanic:
			out.kind, out.panic = "panic", p
		default:
			panic(r)
		}
		in.sched.killAll()
	}()
	in.call(nil, 0, fn, nil)
	return
}

func (in *Interp) panicMessage(p targetPanic) string {
	switch v := p.v.(type) {
	case iface:
		if s, ok := v.v.(string); ok {
			return s
		}
		// error or Stringer: try Error()
		if v.t != nil {
			if m := in.methodByName(v.t, "Error"); m != nil {
				func() {
					defer func() { recover() }()
					r := in.call(nil, 0, m, []value{v.v})
					if s, ok := r.(string); ok {
						p.v = s
					}
				}()
				if s, ok := p.v.(string); ok {
					return s
				}
			}
		}
		return toString(v)
	}
	return toString(p.v)
}

func (in *Interp) methodByName(t types.Type, name string) *ssa.Function {
	ms := in.prog.MethodSets.MethodSet(t)
	for i := 0; i < ms.Len(); i++ {
		if ms.At(i).Obj().Name() == name {
			return in.prog.MethodValue(ms.At(i))
		}
	}
	return nil
}

// explore runs one harness to completion.
func (in *Interp) explore(cfg *HarnessCfg, fn *ssa.Function, deadline time.Time, seed int64) *HarnessResult {
	res := &HarnessResult{Name: cfg.Name, Cfg: cfg, KnownHits: map[string]*Violation{}, Reach: map[string]int{}, UnsupportedMsgs: map[string]int{}, FuncInstrs: map[string]int64{}, seenViol: map[string]bool{}}
	in.cfg, in.res = cfg, res
	in.trail = nil
	in.obligationAssumed = map[obKey]bool{}
	in.solver.reset()
	in.solver.timeoutMs = cfg.TimeoutMs
	in.solver.preferCvc5 = cfg.Prefer == "cvc5"
	in.solver.modelCostly = false
	in.solver.send(fmt.Sprintf("(set-option :timeout %d)", cfg.TimeoutMs))
	t0 := time.Now()
	in.deadline, in.deadlineHit = deadline, false
	funcCalls := map[*ssa.Function]int{}
	for {
		in.resetPath()
		out := in.runOnce(fn)
		res.Instrs += in.run.instrs
		res.Decisions += in.run.decisions
		for f, n := range in.run.calls {
			funcCalls[f] += n
		}
		completed := false
		switch out.kind {
		case "done":
			completed = true
			res.Paths++
		case "panic":
			res.PanicPaths++
			msg := in.panicMessage(out.panic)
			in.recordViolation(nil, "panic", "panic: "+firstLine(msg), msg)
			completed = true
		case "abort":
			switch out.abort.kind {
			case abInfeasible:
				res.Infeasible++
			case abAssume:
				res.AssumeCut++
			case abViolation:
				res.Paths++
			case abUnsupported:
				res.Unsupported++
				res.UnsupportedMsgs[out.abort.msg]++
				if in.verbose > 0 {
					fmt.Fprintf(os.Stderr, "  unsupported: %s [%s]\n", out.abort.msg, in.trailString())
				}
			case abUnwind:
				res.Unwind++
				// A path that exhausts its instruction budget may be a loop that never ends: it is a hang obligation for
				// every harness (the native replay decides: no end within 45 s = violation; a native run that ends
				// means the budget is too small for the harness = engine/native mismatch, exit 2). Never a silent pass.
				in.recordViolation(nil, "hang", "no termination within the instruction budget", out.abort.msg)
			case abDeadlock:
				res.Deadlocks++
				in.recordViolation(nil, "deadlock", "deadlock", out.abort.msg)
			case abCap:
				res.CapHits++
			}
		}
		if in.run.inconclusive {
			res.Inconclusive++
		}
		if prefixDepth > 0 {
			k := ""
			n := 0
			for _, d := range in.trail {
				if d.kind == 'e' {
					k += fmt.Sprintf("%d,", int64(d.vals[d.choice]))
					n++
					if n >= prefixDepth {
						break
					}
				}
			}
			prefixCounts[k]++
		}
		if completed {
			for _, l := range in.run.reach {
				res.Reach[l]++
			}
			if out.kind == "done" {
				in.maybeSample(res, cfg, seed)
			}
		}
		if !in.nextPath() {
			break
		}
		total := res.Paths + res.PanicPaths + res.AssumeCut + res.Infeasible + res.Unsupported + res.Unwind + res.Deadlocks
		if cfg.MaxPaths > 0 && total >= cfg.MaxPaths || time.Now().After(deadline) || in.deadlineHit {
			res.PathLimitHit = true
			res.note("exploration stopped after %d paths (limit/time): the remaining paths are outside this run's bound", total)
			in.solver.pop(in.solver.level)
			break
		}
	}
	for f, n := range funcCalls {
		res.FuncInstrs[f.String()] += int64(n)
	}
	if prefixDepth > 0 {
		for _, k := range sortedKeys(prefixCounts) {
			fmt.Fprintf(os.Stderr, "PREFIX %s %d\n", k, prefixCounts[k])
		}
	}
	res.Wall = time.Since(t0).Seconds()
	return res
}

func firstLine(s string) string {
	if i := strings.IndexByte(s, '\n'); i >= 0 {
		return s[:i]
	}
	return s
}

// maybeSample keeps a few completed paths as samples, with a concrete model.
func (in *Interp) maybeSample(res *HarnessResult, cfg *HarnessCfg, seed int64) {
	want := cfg.Samples
	if want == 0 {
		want = 3
	}
	n := res.Paths
	take := len(res.Samples) < want
	if !take {
		// reservoir-ish replacement driven by the seed, deterministic
		h := uint64(seed)*0x9E3779B97F4A7C15 + uint64(n)*0xBF58476D1CE4E5B9
		h ^= h >> 29
		if h%uint64(n) < uint64(want) {
			take = true
		}
	}
	if !take {
		return
	}
	s := in.solver
	if s.check() != resSat {
		return
	}
	m := s.model()
	sc, by := in.inputsModel(m)
	smp := Sample{Harness: cfg.Name, Scalars: sc, Bytes: by, Reach: append([]string{}, in.run.reach...), Observed: map[string][]string{}, Trail: in.trailString(), Instrs: in.run.instrs}
	memo := map[*Term]uint64{}
	func() {
		defer func() {
			if r := recover(); r != nil {
				if _, ok := r.(evalUF); ok {
					smp.Observed = nil // abstraction in use: values not comparable
					return
				}
				panic(r)
			}
		}()
		for _, o := range in.run.observes {
			for _, v := range o.vals {
				smp.Observed[o.name] = append(smp.Observed[o.name], renderObserved(v, m, memo))
			}
		}
	}()
	if len(res.Samples) < want {
		res.Samples = append(res.Samples, smp)
	} else {
		res.Samples[n%want] = smp
	}
}

func (in *Interp) observedUnder(m Model) (out map[string][]string) {
	out = map[string][]string{}
	memo := map[*Term]uint64{}
	defer func() {
		if r := recover(); r != nil {
			if _, ok := r.(evalUF); ok {
				out = nil
				return
			}
			panic(r)
		}
	}()
	for _, o := range in.run.observes {
		for _, v := range o.vals {
			out[o.name] = append(out[o.name], renderObserved(v, m, memo))
		}
	}
	return
}

// renderObserved prints a value the way fmt.Sprint prints its native twin.
func renderObserved(v value, m Model, memo map[*Term]uint64) string {
	switch x := v.(type) {
	case *Term:
		val := m.eval(x, memo)
		switch x.sort.K {
		case sBool:
			return fmt.Sprint(val == 1)
		case sFP:
			return fmt.Sprint(bitsf(x.sort.W, val))
		}
		return fmt.Sprint(val)
	case *symStr:
		b := make([]byte, len(x.b))
		for i, e := range x.b {
			b[i] = byte(m.eval(byteTerm(e), memo))
		}
		return string(b)
	case []value:
		parts := make([]string, len(x))
		allBytes := true
		for i, e := range x {
			parts[i] = renderObserved(e, m, memo)
			switch e.(type) {
			case uint8:
			case *Term:
				if e.(*Term).sort != bvSort(8) {
					allBytes = false
				}
			default:
				allBytes = false
			}
		}
		_ = allBytes
		return "[" + strings.Join(parts, " ") + "]"
	case string:
		return x
	case bool:
		return fmt.Sprint(x)
	}
	return fmt.Sprint(v)
}

func sortedKeys[V any](m map[string]V) []string {
	ks := make([]string, 0, len(m))
	for k := range m {
		ks = append(ks, k)
	}
	sort.Strings(ks)
	return ks
}

// mapReserve applies the allocation policy to the size hint of make(map[K]V, n): the runtime allocates buckets
// for n entries up front.
func (in *Interp) mapReserve(v value, unsigned bool, entrySize int64, pos string) {
	t, ok := v.(*Term)
	if !ok {
		if n := asInt64(v); n > 0 && n*entrySize > 1<<28 && in.cfg.AllocPolicy {
			in.recordViolation(nil, "alloc", "allocation sized by input: "+pos, fmt.Sprintf("map with a size hint of %d entries", n))
			abort(abViolation, "alloc policy")
		}
		return
	}
	if !in.cfg.AllocPolicy {
		return
	}
	t64 := t
	if t.sort.W < 64 {
		if unsigned {
			t64 = mkZext(t, 64-t.sort.W)
		} else {
			t64 = mkSext(t, 64-t.sort.W)
		}
	}
	// the runtime ignores hints that are negative or overflow; hints up to 2^40 entries are honoured
	lim := in.allocLimit() / entrySize
	over := mkAnd(mkNot(mkBvCmp(opBvUle, t64, mkBV(64, uint64(lim)))), mkBvCmp(opBvUle, t64, mkBV(64, 1<<26)))
	if in.branch(over) {
		big := mkBvCmp(opBvUle, mkBV(64, uint64((64<<20)/entrySize)), t64)
		sv := in.solver
		sv.push()
		sv.assert(big)
		rb := sv.check()
		sv.pop(1)
		if rb == resSat {
			in.assume(big, false)
		}
		in.recordViolation(nil, "alloc", "allocation sized by input: "+pos, fmt.Sprintf("make(map) with a size hint taken from the input (more than %d bytes)", in.allocLimit()))
		abort(abViolation, "alloc policy")
	}
}
