package main

// Lean front end. `go list -deps -export` (with the harness overlay) gives the package graph in dependency order and
// the compiler's export data. Only the packages the interpreter executes from source - the repository's packages, the
// harness API, the few third-party libraries and the standard-library packages of the interpretable set - are parsed
// and type-checked from /repo's current sources (and get SSA bodies); everything else (badger, net/http, protobuf,
// crypto, ...) is read from export data and becomes a body-less SSA package. go/packages cannot do this split when an
// overlay is present (it then type-checks the whole closure from source), which cost 5-8 s and 0.4-1.2 GB per worker
// and, with 16 workers starting at once, 50-90 s each.

import (
	"bytes"
	"encoding/json"
	"fmt"
	"go/ast"
	"go/parser"
	"go/token"
	"go/types"
	"io"
	"os"
	"os/exec"
	"path/filepath"
	"sort"
	"strings"
	"sync"
	"time"

	"golang.org/x/tools/go/gcexportdata"
	"golang.org/x/tools/go/ssa"
)

type listedPkg struct {
	ImportPath      string
	Dir             string
	Name            string
	Export          string
	GoFiles         []string
	CompiledGoFiles []string
	Imports         []string
	ImportMap       map[string]string
	Standard        bool
	Module          *struct{ GoVersion string }
	Error           *struct{ Err string }
}

type mapImporter struct {
	all map[string]*types.Package
	im  map[string]string
}

func (m mapImporter) Import(path string) (*types.Package, error) {
	if path == "unsafe" {
		return types.Unsafe, nil
	}
	if r, ok := m.im[path]; ok {
		path = r
	}
	if p := m.all[path]; p != nil {
		return p, nil
	}
	return nil, fmt.Errorf("package %q not loaded", path)
}

func loadProgramLean(pkgPaths []string) *Program {
	t0 := time.Now()
	ov, err := overlayFiles()
	if err != nil {
		fatalf("overlay: %v", err)
	}
	tmp, err := os.MkdirTemp("", "gosym-load-")
	if err != nil {
		fatalf("%v", err)
	}
	defer os.RemoveAll(tmp)
	ovj, _ := json.Marshal(map[string]interface{}{"Replace": ov})
	ovFile := filepath.Join(tmp, "overlay.json")
	os.WriteFile(ovFile, ovj, 0o644)

	pats := append([]string{}, pkgPaths...)
	pats = append(pats, verifPkg, "runtime")
	args := []string{"list", "-e", "-deps", "-export", "-tags=" + buildTag, "-overlay", ovFile,
		"-json=ImportPath,Dir,Name,Export,GoFiles,CompiledGoFiles,Imports,ImportMap,Standard,Module,Error"}
	args = append(args, pats...)
	cmd := exec.Command("go", args...)
	cmd.Dir = repoDir
	cmd.Env = goEnv()
	var stderr bytes.Buffer
	cmd.Stderr = &stderr
	out, err := cmd.Output()
	os.RemoveAll(tmp) // fatalf exits without running deferred calls
	if err != nil {
		fatalf("go list failed: %v\n%s", err, stderr.String())
	}
	var listed []*listedPkg
	dec := json.NewDecoder(bytes.NewReader(out))
	for {
		lp := &listedPkg{}
		if err := dec.Decode(lp); err == io.EOF {
			break
		} else if err != nil {
			fatalf("go list output: %v", err)
		}
		listed = append(listed, lp)
	}
	tList := time.Since(t0)

	probe := &Interp{canInterp: map[string]bool{}}
	isRoot := func(path string) bool {
		if path == "runtime" || path == verifPkg {
			return true
		}
		for _, p := range pkgPaths {
			if p == path {
				return true
			}
		}
		return probe.interpretable(path)
	}

	fset := token.NewFileSet()
	// parse the root packages' files in parallel
	type parsed struct {
		files []*ast.File
		errs  []error
	}
	parsedOf := map[*listedPkg]*parsed{}
	var wg sync.WaitGroup
	sem := make(chan struct{}, 4)
	for _, lp := range listed {
		if lp.ImportPath == "unsafe" || !isRoot(lp.ImportPath) {
			continue
		}
		pr := &parsed{}
		parsedOf[lp] = pr
		names := lp.CompiledGoFiles
		if len(names) == 0 {
			names = lp.GoFiles
		}
		pr.files = make([]*ast.File, len(names))
		pr.errs = make([]error, len(names))
		for i, n := range names {
			if !filepath.IsAbs(n) {
				n = filepath.Join(lp.Dir, n)
			}
			wg.Add(1)
			go func(i int, n string) {
				defer wg.Done()
				sem <- struct{}{}
				defer func() { <-sem }()
				var src interface{}
				if real, ok := ov[n]; ok {
					b, rerr := os.ReadFile(real)
					if rerr != nil {
						pr.errs[i] = rerr
						return
					}
					src = b
				}
				pr.files[i], pr.errs[i] = parser.ParseFile(fset, n, src, parser.SkipObjectResolution)
			}(i, n)
		}
	}
	wg.Wait()
	tParse := time.Since(t0)

	all := map[string]*types.Package{}
	sizes := types.SizesFor("gc", "amd64")
	prog := ssa.NewProgram(fset, ssa.InstantiateGenerics)
	p := &Program{prog: prog, pkgs: map[string]*ssa.Package{}, overlay: ov}
	nerr := 0
	prog.CreatePackage(types.Unsafe, nil, nil, true)
	for _, lp := range listed {
		if lp.ImportPath == "unsafe" {
			continue
		}
		if lp.Error != nil && strings.HasPrefix(lp.ImportPath, modPath) {
			fmt.Fprintf(os.Stderr, "load error: %s: %s\n", lp.ImportPath, lp.Error.Err)
			nerr++
			continue
		}
		if pr := parsedOf[lp]; pr != nil {
			var files []*ast.File
			for i, f := range pr.files {
				if pr.errs[i] != nil {
					fmt.Fprintf(os.Stderr, "load error: %v\n", pr.errs[i])
					nerr++
				}
				if f != nil {
					files = append(files, f)
				}
			}
			info := &types.Info{
				Types:        map[ast.Expr]types.TypeAndValue{},
				Defs:         map[*ast.Ident]types.Object{},
				Uses:         map[*ast.Ident]types.Object{},
				Implicits:    map[ast.Node]types.Object{},
				Instances:    map[*ast.Ident]types.Instance{},
				Scopes:       map[ast.Node]*types.Scope{},
				Selections:   map[*ast.SelectorExpr]*types.Selection{},
				FileVersions: map[*ast.File]string{},
			}
			inRepo := strings.HasPrefix(lp.ImportPath, modPath)
			conf := types.Config{
				Importer: mapImporter{all, lp.ImportMap},
				Sizes:    sizes,
				Error: func(e error) {
					if inRepo {
						fmt.Fprintf(os.Stderr, "load error: %v\n", e)
						nerr++
					}
				},
			}
			if lp.Module != nil && lp.Module.GoVersion != "" {
				conf.GoVersion = "go" + lp.Module.GoVersion
			}
			tp, _ := conf.Check(lp.ImportPath, fset, files, info)
			if tp == nil {
				fatalf("type-checking %s produced no package", lp.ImportPath)
			}
			all[lp.ImportPath] = tp
			p.pkgs[lp.ImportPath] = prog.CreatePackage(tp, files, info, true)
			continue
		}
		// export data
		if lp.Export == "" {
			fatalf("no export data for %s (go list -export did not build it)", lp.ImportPath)
		}
		f, err := os.Open(lp.Export)
		if err != nil {
			fatalf("export data of %s: %v", lp.ImportPath, err)
		}
		r, err := gcexportdata.NewReader(f)
		if err != nil {
			fatalf("export data of %s: %v", lp.ImportPath, err)
		}
		// the view of the export data reader: the packages loaded so far (all dependencies come earlier in the list)
		tp, err := gcexportdata.Read(r, fset, all, lp.ImportPath)
		f.Close()
		if err != nil {
			fatalf("export data of %s: %v", lp.ImportPath, err)
		}
		all[lp.ImportPath] = tp
		p.pkgs[lp.ImportPath] = prog.CreatePackage(tp, nil, nil, true)
	}
	if nerr > 0 {
		fatalf("the repository (with the harness overlay) does not type-check: %d errors", nerr)
	}
	tCheck := time.Since(t0)
	prog.Build()
	for _, sp := range prog.AllPackages() {
		p.pkgs[sp.Pkg.Path()] = sp
	}
	p.loadSecs = time.Since(t0).Seconds()
	if os.Getenv("GOSYM_LOADERRS") != "" {
		var roots []string
		for lp := range parsedOf {
			roots = append(roots, lp.ImportPath)
		}
		sort.Strings(roots)
		fmt.Fprintf(os.Stderr, "LOADPHASE golist %.1fs parse %.1fs check %.1fs ssa %.1fs; %d packages, %d from source\n",
			tList.Seconds(), (tParse - tList).Seconds(), (tCheck - tParse).Seconds(), (time.Since(t0) - tCheck).Seconds(), len(listed), len(roots))
	}
	return p
}
