package main

// Models of badgerhold.Store (an atomic, durable, ordered key -> record map; a
// gob round trip is a deep copy) and of the few os file functions the bundle
// store uses (path -> bytes; writes are durable when they return). DESIGN 2.5.

import (
	"crypto/sha256"
	"fmt"
	"go/types"
	"sort"
	"strings"

	"golang.org/x/tools/go/ssa"
)

type kvModel struct {
	dir    string
	recs   *omap // key (string) -> record value
	open   bool
}

type fileData struct {
	b []value
}

type fileHandle struct {
	name   string
	data   *fileData
	pos    int
	rd, wr bool
	app    bool // O_APPEND
	closed bool
}

func (in *Interp) bhPkg() *ssa.Package { return in.prog.ImportedPackage("github.com/timshannon/badgerhold") }

func (in *Interp) bhErr(name string) value {
	p := in.bhPkg()
	return *in.global(p.Var(name))
}

// initStoreGlobals gives badgerhold's error variables distinct values (its package initialiser is not run).
func (in *Interp) initStoreGlobals() {
	p := in.bhPkg()
	if p == nil {
		return
	}
	for _, n := range []string{"ErrNotFound", "ErrKeyExists"} {
		if g := p.Var(n); g != nil {
			*in.global(g) = in.mkError("badgerhold: " + n)
		}
	}
}

func kvOf(v value) *kvModel {
	return (*v.(*value)).(structure)[0].(*kvModel)
}

func (in *Interp) point(what string) {
	if in.cfg.YieldOnStore {
		in.sched.yield()
	}
	in.run.envCalls++
	if in.run.crashAt > 0 && in.run.envCalls == in.run.crashAt {
		panic(targetPanic{iface{t: types.Typ[types.String], v: "verif: simulated process kill at environment call " + what}})
	}
}

func fieldIndex(t types.Type, name string) int {
	st, ok := t.Underlying().(*types.Struct)
	if !ok {
		return -1
	}
	for i := 0; i < st.NumFields(); i++ {
		if st.Field(i).Name() == name {
			return i
		}
	}
	return -1
}

type bhQuery struct {
	field string
	op    string // eq | lt | gt
	val   iface
}

func addStoreIntrinsics() {
	t := intrinsicTable
	const bh = "github.com/timshannon/badgerhold"
	t[bh+".Open"] = func(in *Interp, fr *frame, args []value) value {
		opts := args[0].(structure)
		// Options{Encoder, Decoder, SequenceBandwith, badger.Options}: Dir is the first field of badger.Options
		var dir string
		bo := opts[len(opts)-1].(structure)
		if s, ok := bo[0].(string); ok {
			dir = s
		}
		in.point("badgerhold.Open")
		m, ok := in.kvs[dir]
		if !ok {
			m = &kvModel{dir: dir, recs: newMap(types.Typ[types.String])}
			in.kvs[dir] = m
		}
		if m.open {
			return tuple{(*value)(nil), in.mkError("Cannot acquire directory lock on \"" + dir + "\". Another process is using this Badger database.")}
		}
		m.open = true
		cell := value(structure{m})
		return tuple{&cell, iface{}}
	}
	t["(*"+bh+".Store).Close"] = func(in *Interp, fr *frame, args []value) value {
		in.point("Store.Close")
		kvOf(args[0]).open = false
		return iface{}
	}
	keyOf := func(k value) value { return k.(iface).v }
	t["(*"+bh+".Store).Insert"] = func(in *Interp, fr *frame, args []value) value {
		in.point("Store.Insert")
		m := kvOf(args[0])
		k := keyOf(args[1])
		if _, ok := m.recs.lookup(in, k); ok {
			return in.bhErr("ErrKeyExists")
		}
		m.recs.insert(in, k, newCopier().copy(args[2].(iface).v))
		return iface{}
	}
	t["(*"+bh+".Store).Update"] = func(in *Interp, fr *frame, args []value) value {
		in.point("Store.Update")
		m := kvOf(args[0])
		k := keyOf(args[1])
		if _, ok := m.recs.lookup(in, k); !ok {
			return in.bhErr("ErrNotFound")
		}
		m.recs.insert(in, k, newCopier().copy(args[2].(iface).v))
		return iface{}
	}
	t["(*"+bh+".Store).Upsert"] = func(in *Interp, fr *frame, args []value) value {
		in.point("Store.Upsert")
		kvOf(args[0]).recs.insert(in, keyOf(args[1]), newCopier().copy(args[2].(iface).v))
		return iface{}
	}
	t["(*"+bh+".Store).Get"] = func(in *Interp, fr *frame, args []value) value {
		in.point("Store.Get")
		m := kvOf(args[0])
		v, ok := m.recs.lookup(in, keyOf(args[1]))
		if !ok {
			return in.bhErr("ErrNotFound")
		}
		in.store(args[2].(iface).v, newCopier().copy(v))
		return iface{}
	}
	t["(*"+bh+".Store).Delete"] = func(in *Interp, fr *frame, args []value) value {
		in.point("Store.Delete")
		m := kvOf(args[0])
		k := keyOf(args[1])
		if _, ok := m.recs.lookup(in, k); !ok {
			return in.bhErr("ErrNotFound")
		}
		m.recs.delete(in, k)
		return iface{}
	}
	t[bh+".Where"] = func(in *Interp, fr *frame, args []value) value {
		cell := value(structure{&bhQuery{field: concStr(args[0], "field")}})
		return &cell
	}
	crit := func(op string) intrinsic {
		return func(in *Interp, fr *frame, args []value) value {
			q := (*args[0].(*value)).(structure)[0].(*bhQuery)
			nq := &bhQuery{field: q.field, op: op, val: args[1].(iface)}
			cell := value(structure{nq})
			return &cell
		}
	}
	t["(*"+bh+".Criterion).Eq"] = crit("eq")
	t["(*"+bh+".Criterion).Lt"] = crit("lt")
	t["(*"+bh+".Criterion).Gt"] = crit("gt")
	t["(*"+bh+".Store).Find"] = func(in *Interp, fr *frame, args []value) value {
		in.point("Store.Find")
		m := kvOf(args[0])
		res := args[1].(iface)
		q := (*args[2].(*value)).(structure)[0].(*bhQuery)
		elemT := deref(res.t).Underlying().(*types.Slice).Elem()
		fi := fieldIndex(elemT, q.field)
		if fi < 0 {
			return in.mkError("badgerhold: no such field " + q.field)
		}
		ft := elemT.Underlying().(*types.Struct).Field(fi).Type()
		// records in key order
		ord := m.recs.order(2)
		var out []value
		for _, p := range ord {
			rec := m.recs.vals[p].(structure)
			fv := rec[fi]
			var match value
			switch q.op {
			case "eq":
				match = equalsV(ft, fv, q.val.v)
			case "lt", "gt":
				if strings.HasSuffix(ft.String(), "time.Time") {
					before := in.methodByName(ft, "Before")
					if q.op == "lt" {
						match = in.call(fr, fr.callPos, before, []value{fv, q.val.v})
					} else {
						match = in.call(fr, fr.callPos, before, []value{q.val.v, fv})
					}
				} else {
					op := tokenLSS
					if q.op == "gt" {
						op = tokenGTR
					}
					match = in.binop(op, ft, ft, fv, q.val.v)
				}
			}
			if in.branchV(match) {
				out = append(out, newCopier().copy(rec))
			}
		}
		in.store(res.v, out)
		return iface{}
	}

	// ---- os ----
	t["os.MkdirAll"] = func(in *Interp, fr *frame, args []value) value { return iface{} }
	openFile := func(in *Interp, name string, create, trunc, rd, wr bool, excl ...bool) value {
		in.point("os.OpenFile " + name)
		fd, ok := in.files[name]
		if ok && create && len(excl) > 0 && excl[0] {
			return tuple{(*value)(nil), in.mkError("open " + name + ": file exists")}
		}
		if !ok {
			if !create {
				return tuple{(*value)(nil), in.mkError("open " + name + ": no such file or directory")}
			}
			fd = &fileData{}
			in.files[name] = fd
		}
		if trunc {
			fd.b = nil
		}
		cell := value(structure{&fileHandle{name: name, data: fd, rd: rd, wr: wr, app: len(excl) > 1 && excl[1]}})
		return tuple{&cell, iface{}}
	}
	t["os.OpenFile"] = func(in *Interp, fr *frame, args []value) value {
		flag := int(asInt64(args[1]))
		acc := flag & 3
		return openFile(in, concStr(args[0], "file name"), flag&0x40 != 0, flag&0x200 != 0, acc == 0 || acc == 2, acc == 1 || acc == 2, flag&0x80 != 0, flag&0x400 != 0)
	}
	t["os.Open"] = func(in *Interp, fr *frame, args []value) value {
		return openFile(in, concStr(args[0], "file name"), false, false, true, false)
	}
	t["os.Create"] = func(in *Interp, fr *frame, args []value) value {
		return openFile(in, concStr(args[0], "file name"), true, true, true, true)
	}
	t["os.Remove"] = func(in *Interp, fr *frame, args []value) value {
		name := concStr(args[0], "file name")
		in.point("os.Remove " + name)
		if _, ok := in.files[name]; !ok {
			return in.mkError("remove " + name + ": no such file or directory")
		}
		delete(in.files, name)
		return iface{}
	}
	fh := func(v value) *fileHandle {
		p := v.(*value)
		if p == nil {
			rtPanic("invalid memory address or nil pointer dereference (nil *os.File)")
		}
		return (*p).(structure)[0].(*fileHandle)
	}
	t["(*os.File).Write"] = func(in *Interp, fr *frame, args []value) value {
		h := fh(args[0])
		in.point("File.Write " + h.name)
		if h.closed || !h.wr {
			return tuple{0, in.mkError("write " + h.name + ": bad file descriptor")}
		}
		b := args[1].([]value)
		if h.app {
			h.pos = len(h.data.b)
		}
		for len(h.data.b) < h.pos+len(b) {
			h.data.b = append(h.data.b, uint8(0))
		}
		for i, x := range b {
			h.data.b[h.pos+i] = x
		}
		h.pos += len(b)
		return tuple{len(b), iface{}}
	}
	t["(*os.File).Read"] = func(in *Interp, fr *frame, args []value) value {
		h := fh(args[0])
		if h.closed || !h.rd {
			return tuple{0, in.mkError("read " + h.name + ": bad file descriptor")}
		}
		b := args[1].([]value)
		if h.pos >= len(h.data.b) {
			if len(b) == 0 {
				return tuple{0, iface{}}
			}
			return tuple{0, *in.global(in.prog.ImportedPackage("io").Var("EOF"))}
		}
		n := copy(b, h.data.b[h.pos:])
		h.pos += n
		return tuple{n, iface{}}
	}
	t["(*os.File).WriteString"] = func(in *Interp, fr *frame, args []value) value {
		return t["(*os.File).Write"](in, fr, []value{args[0], append([]value(nil), strBytes(args[1])...)})
	}
	t["(*os.File).ReadFrom"] = func(in *Interp, fr *frame, args []value) value {
		r := args[1].(iface)
		rd := in.methodByName(r.t, "Read")
		total := int64(0)
		for {
			buf := make([]value, 512)
			for i := range buf {
				buf[i] = uint8(0)
			}
			res := in.call(fr, fr.callPos, rd, []value{r.v, buf}).(tuple)
			n := int(asInt64(res[0]))
			if n > 0 {
				wr := t["(*os.File).Write"](in, fr, []value{args[0], buf[:n]}).(tuple)
				if wr[1].(iface).t != nil {
					return tuple{total, wr[1]}
				}
				total += int64(n)
			}
			if e := res[1].(iface); e.t != nil {
				if in.branchV(equalsV(errorType(in), e, *in.global(in.prog.ImportedPackage("io").Var("EOF")))) {
					return tuple{total, iface{}}
				}
				return tuple{total, e}
			}
		}
	}
	t["(*os.File).WriteTo"] = func(in *Interp, fr *frame, args []value) value {
		h := fh(args[0])
		w := args[1].(iface)
		rest := append([]value(nil), h.data.b[h.pos:]...)
		h.pos = len(h.data.b)
		res := in.call(fr, fr.callPos, in.methodByName(w.t, "Write"), []value{w.v, rest}).(tuple)
		return tuple{int64(asInt64(res[0])), res[1]}
	}
	t["(*os.File).Close"] = func(in *Interp, fr *frame, args []value) value {
		fh(args[0]).closed = true
		return iface{}
	}
	t["(*os.File).Sync"] = func(in *Interp, fr *frame, args []value) value { return iface{} }

	// ---- hashes used for file names ----
	t["crypto/sha256.Sum256"] = func(in *Interp, fr *frame, args []value) value {
		hv, ok := hostScalar(args[0])
		if !ok {
			abort(abUnsupported, "sha256 of symbolic data (bundle IDs must be concrete where the store is used)")
		}
		sum := sha256.Sum256(hv.([]byte))
		a := make(array, 32)
		for i := range a {
			a[i] = sum[i]
		}
		return a
	}
}

func (in *Interp) storeSummary() string {
	var ks []string
	for d, m := range in.kvs {
		ks = append(ks, fmt.Sprintf("%s:%d", d, m.recs.len()))
	}
	sort.Strings(ks)
	return strings.Join(ks, ",")
}

func errorType(in *Interp) types.Type { return types.Universe.Lookup("error").Type() }
