package main

// Path-sensitive cheap reasoning that saves solver queries:
//
//   * an interval + known-bits abstract domain over BV terms, refined by the
//     facts asserted on the current path; a branch whose condition is decided by
//     it needs no query (sound: it only ever answers when the condition is
//     implied by the facts learnt, which are consequences of the path condition);
//   * a cached model of the path condition: the side of a branch that the model
//     satisfies is known feasible without a query.

import "math/bits"

type absVal struct {
	lo, hi uint64 // unsigned interval
	kz, ko uint64 // known-zero / known-one bit masks
}

func absTop(w int) absVal { return absVal{0, wmask(w), ^wmask(w), 0} }

func absConst(w int, v uint64) absVal {
	v &= wmask(w)
	return absVal{v, v, ^v, v}
}

// norm makes interval and bits consistent.
func (a absVal) norm(w int) absVal {
	m := wmask(w)
	a.kz |= ^m
	// bits -> interval
	if a.ko > a.lo {
		a.lo = a.ko
	}
	if h := ^a.kz; h < a.hi {
		a.hi = h
	}
	// interval -> bits: common leading bits of lo and hi are known
	if a.lo <= a.hi {
		diff := a.lo ^ a.hi
		n := bits.Len64(diff) // bits below n may vary
		var keep uint64
		if n < 64 {
			keep = ^uint64(0) << uint(n)
		}
		a.ko |= a.lo & keep
		a.kz |= ^a.lo & keep
	}
	return a
}

func (a absVal) isConst() (uint64, bool) {
	if a.lo == a.hi {
		return a.lo, true
	}
	return 0, false
}

func absJoin(a, b absVal) absVal {
	r := absVal{lo: a.lo, hi: a.hi, kz: a.kz & b.kz, ko: a.ko & b.ko}
	if b.lo < r.lo {
		r.lo = b.lo
	}
	if b.hi > r.hi {
		r.hi = b.hi
	}
	return r
}

func absMeet(a, b absVal) absVal {
	r := absVal{lo: a.lo, hi: a.hi, kz: a.kz | b.kz, ko: a.ko | b.ko}
	if b.lo > r.lo {
		r.lo = b.lo
	}
	if b.hi < r.hi {
		r.hi = b.hi
	}
	return r
}

type absState struct {
	facts map[*Term]absVal // refinements learnt on this path
	known map[*Term]bool   // boolean terms known true/false on this path
	memo  map[*Term]absVal
	bmemo map[*Term]int8
}

func newAbsState() *absState {
	return &absState{facts: map[*Term]absVal{}, known: map[*Term]bool{}, memo: map[*Term]absVal{}, bmemo: map[*Term]int8{}}
}

func (s *absState) invalidate() {
	if len(s.memo) > 0 {
		s.memo = map[*Term]absVal{}
	}
	if len(s.bmemo) > 0 {
		s.bmemo = map[*Term]int8{}
	}
}

func (s *absState) val(t *Term) absVal {
	w := t.sort.W
	if t.op == opConst {
		return absConst(w, t.cval)
	}
	if v, ok := s.memo[t]; ok {
		return v
	}
	r := s.compute(t).norm(w)
	if f, ok := s.facts[t]; ok {
		r = absMeet(r, f).norm(w)
	}
	s.memo[t] = r
	return r
}

func (s *absState) compute(t *Term) absVal {
	w := t.sort.W
	if t.sort.K != sBV || w > 64 {
		return absTop(64)
	}
	m := wmask(w)
	top := absTop(w)
	switch t.op {
	case opVar, opUF, opFpToBV, opFpToSInt, opFpToUInt:
		return top
	case opZext:
		a := s.val(t.args[0])
		a.kz |= ^wmask(t.args[0].sort.W)
		return a
	case opSext:
		a := s.val(t.args[0])
		iw := t.args[0].sort.W
		if a.kz&(1<<uint(iw-1)) != 0 { // sign bit known zero
			a.kz |= ^wmask(iw)
			return a
		}
		return top
	case opExtract:
		a := s.val(t.args[0])
		hi, lo := t.p1, t.p2
		nw := hi - lo + 1
		r := absTop(nw)
		r.kz = (a.kz >> uint(lo)) | ^wmask(nw)
		r.ko = (a.ko >> uint(lo)) & wmask(nw)
		if lo == 0 && a.hi <= wmask(nw) {
			r.lo, r.hi = a.lo, a.hi
		} else if hi == t.args[0].sort.W-1 {
			r.lo, r.hi = a.lo>>uint(lo), a.hi>>uint(lo)
		}
		return r
	case opConcat:
		a, b := s.val(t.args[0]), s.val(t.args[1])
		bw := t.args[1].sort.W
		r := top
		r.kz = (a.kz << uint(bw)) | (b.kz & wmask(bw)) | ^m
		r.ko = (a.ko << uint(bw)) | (b.ko & wmask(bw))
		r.lo = a.lo<<uint(bw) | b.lo
		r.hi = a.hi<<uint(bw) | b.hi
		return r
	case opIte:
		switch s.cond(t.args[0]) {
		case 1:
			return s.val(t.args[1])
		case -1:
			return s.val(t.args[2])
		}
		return absJoin(s.val(t.args[1]), s.val(t.args[2]))
	case opBvAnd:
		a, b := s.val(t.args[0]), s.val(t.args[1])
		r := top
		r.kz = a.kz | b.kz
		r.ko = a.ko & b.ko
		r.hi = a.hi
		if b.hi < r.hi {
			r.hi = b.hi
		}
		return r
	case opBvOr:
		a, b := s.val(t.args[0]), s.val(t.args[1])
		r := top
		r.kz = a.kz & b.kz
		r.ko = a.ko | b.ko
		r.lo = a.lo
		if b.lo > r.lo {
			r.lo = b.lo
		}
		return r
	case opBvXor:
		a, b := s.val(t.args[0]), s.val(t.args[1])
		r := top
		ka, kb := a.kz|a.ko, b.kz|b.ko
		both := ka & kb
		x := (a.ko ^ b.ko) & both
		r.ko = x
		r.kz = (both &^ x) | ^m
		return r
	case opBvNot:
		a := s.val(t.args[0])
		r := top
		r.kz = a.ko | ^m
		r.ko = a.kz & m
		r.lo, r.hi = ^a.hi&m, ^a.lo&m
		return r
	case opBvAdd:
		a, b := s.val(t.args[0]), s.val(t.args[1])
		if hi, c := bits.Add64(a.hi, b.hi, 0); c == 0 && hi <= m {
			return absVal{a.lo + b.lo, hi, ^m, 0}
		}
		return top
	case opBvSub:
		a, b := s.val(t.args[0]), s.val(t.args[1])
		if a.lo >= b.hi {
			return absVal{a.lo - b.hi, a.hi - b.lo, ^m, 0}
		}
		return top
	case opBvMul:
		a, b := s.val(t.args[0]), s.val(t.args[1])
		if h, l := bits.Mul64(a.hi, b.hi); h == 0 && l <= m {
			return absVal{a.lo * b.lo, l, ^m, 0}
		}
		return top
	case opBvUDiv:
		a, b := s.val(t.args[0]), s.val(t.args[1])
		if b.lo > 0 {
			return absVal{a.lo / b.hi, a.hi / b.lo, ^m, 0}
		}
		return top
	case opBvURem:
		a, b := s.val(t.args[0]), s.val(t.args[1])
		if b.lo > 0 {
			hi := b.hi - 1
			if a.hi < hi {
				hi = a.hi
			}
			return absVal{0, hi, ^m, 0}
		}
		return top
	case opBvSDiv, opBvSRem:
		a, b := s.val(t.args[0]), s.val(t.args[1])
		half := uint64(1) << uint(w-1)
		if a.hi < half && b.hi < half && b.lo > 0 {
			if t.op == opBvSDiv {
				return absVal{a.lo / b.hi, a.hi / b.lo, ^m, 0}
			}
			hi := b.hi - 1
			if a.hi < hi {
				hi = a.hi
			}
			return absVal{0, hi, ^m, 0}
		}
		return top
	case opBvLshr:
		a, b := s.val(t.args[0]), s.val(t.args[1])
		if k, ok := b.isConst(); ok && k < uint64(w) {
			return absVal{a.lo >> k, a.hi >> k, (a.kz >> k) | ^(m >> k), a.ko >> k}
		}
		return absVal{0, a.hi, ^m, 0}
	case opBvShl:
		a, b := s.val(t.args[0]), s.val(t.args[1])
		if k, ok := b.isConst(); ok && k < uint64(w) && a.hi <= m>>k {
			return absVal{a.lo << k, a.hi << k, (a.kz << k) | wmask(int(k)) | ^m, a.ko << k}
		}
		return top
	}
	return top
}

// cond evaluates a boolean term: 1 = certainly true, -1 = certainly false, 0 = unknown.
func (s *absState) cond(t *Term) int8 {
	if t.op == opConst {
		if t.cval == 1 {
			return 1
		}
		return -1
	}
	if v, ok := s.known[t]; ok {
		if v {
			return 1
		}
		return -1
	}
	if v, ok := s.bmemo[t]; ok {
		return v
	}
	r := s.condCompute(t)
	s.bmemo[t] = r
	return r
}

func (s *absState) condCompute(t *Term) int8 {
	switch t.op {
	case opNot:
		return -s.cond(t.args[0])
	case opAnd:
		a, b := s.cond(t.args[0]), s.cond(t.args[1])
		if a == -1 || b == -1 {
			return -1
		}
		if a == 1 && b == 1 {
			return 1
		}
	case opOr:
		a, b := s.cond(t.args[0]), s.cond(t.args[1])
		if a == 1 || b == 1 {
			return 1
		}
		if a == -1 && b == -1 {
			return -1
		}
	case opIte:
		switch s.cond(t.args[0]) {
		case 1:
			return s.cond(t.args[1])
		case -1:
			return s.cond(t.args[2])
		}
		a, b := s.cond(t.args[1]), s.cond(t.args[2])
		if a == b {
			return a
		}
	case opEq:
		x, y := t.args[0], t.args[1]
		if x.sort.K == sBool {
			a, b := s.cond(x), s.cond(y)
			if a != 0 && b != 0 {
				if a == b {
					return 1
				}
				return -1
			}
			return 0
		}
		if x.sort.K != sBV || x.sort.W > 64 {
			return 0
		}
		a, b := s.val(x), s.val(y)
		if a.hi < b.lo || b.hi < a.lo {
			return -1
		}
		if a.ko&b.kz != 0 || a.kz&b.ko&wmask(x.sort.W) != 0 {
			return -1
		}
		if ca, ok := a.isConst(); ok {
			if cb, ok := b.isConst(); ok && ca == cb {
				return 1
			}
		}
	case opBvUlt, opBvUle, opBvSlt, opBvSle:
		x, y := t.args[0], t.args[1]
		if x.sort.W > 64 {
			return 0
		}
		a, b := s.val(x), s.val(y)
		if t.op == opBvSlt || t.op == opBvSle {
			half := uint64(1) << uint(x.sort.W-1)
			if a.hi >= half || b.hi >= half {
				// both certainly negative keeps unsigned order too
				if !(a.lo >= half && b.lo >= half) {
					// mixed signs with certainty
					if a.lo >= half && b.hi < half {
						return 1
					}
					if b.lo >= half && a.hi < half {
						return -1
					}
					return 0
				}
			}
		}
		strict := t.op == opBvUlt || t.op == opBvSlt
		if strict {
			if a.hi < b.lo {
				return 1
			}
			if a.lo >= b.hi {
				return -1
			}
		} else {
			if a.hi <= b.lo {
				return 1
			}
			if a.lo > b.hi {
				return -1
			}
		}
	}
	return 0
}

func (s *absState) refine(t *Term, v absVal) {
	if t.op == opConst || t.sort.K != sBV || t.sort.W > 64 {
		return
	}
	cur, ok := s.facts[t]
	if !ok {
		cur = absTop(t.sort.W)
	}
	n := absMeet(cur, v).norm(t.sort.W)
	if n == cur {
		return
	}
	s.facts[t] = n
	// push the refinement through value-preserving wrappers
	switch t.op {
	case opZext:
		iw := t.args[0].sort.W
		if n.hi <= wmask(iw) {
			s.refine(t.args[0], absVal{n.lo, n.hi, n.kz | ^wmask(iw), n.ko & wmask(iw)})
		}
	case opConcat:
		// high part zero-known: nothing more to learn cheaply
	}
}

// learn records that boolean term c holds (val=true) or does not hold on this path.
func (s *absState) learn(c *Term, val bool) {
	s.invalidate()
	s.learn1(c, val, 0)
}

func (s *absState) learn1(c *Term, val bool, depth int) {
	if c.op == opConst || depth > 64 {
		return
	}
	s.known[c] = val
	switch c.op {
	case opNot:
		s.learn1(c.args[0], !val, depth+1)
	case opAnd:
		if val {
			s.learn1(c.args[0], true, depth+1)
			s.learn1(c.args[1], true, depth+1)
		}
	case opOr:
		if !val {
			s.learn1(c.args[0], false, depth+1)
			s.learn1(c.args[1], false, depth+1)
		}
	case opEq:
		x, y := c.args[0], c.args[1]
		if x.sort.K == sBool {
			if x.isConst() {
				s.learn1(y, (x.cval == 1) == val, depth+1)
			} else if y.isConst() {
				s.learn1(x, (y.cval == 1) == val, depth+1)
			}
			return
		}
		if x.sort.K != sBV || x.sort.W > 64 {
			return
		}
		a, b := s.valNoMemo(x), s.valNoMemo(y)
		if val {
			mt := absMeet(a, b)
			s.refine(x, mt)
			s.refine(y, mt)
		} else {
			if cb, ok := b.isConst(); ok {
				if a.lo == cb && a.lo < a.hi {
					s.refine(x, absVal{a.lo + 1, a.hi, a.kz, a.ko})
				} else if a.hi == cb && a.lo < a.hi {
					s.refine(x, absVal{a.lo, a.hi - 1, a.kz, a.ko})
				}
			} else if ca, ok := a.isConst(); ok {
				if b.lo == ca && b.lo < b.hi {
					s.refine(y, absVal{b.lo + 1, b.hi, b.kz, b.ko})
				} else if b.hi == ca && b.lo < b.hi {
					s.refine(y, absVal{b.lo, b.hi - 1, b.kz, b.ko})
				}
			}
		}
	case opBvUlt, opBvUle, opBvSlt, opBvSle:
		x, y := c.args[0], c.args[1]
		if x.sort.W > 64 {
			return
		}
		a, b := s.valNoMemo(x), s.valNoMemo(y)
		if c.op == opBvSlt || c.op == opBvSle {
			half := uint64(1) << uint(x.sort.W-1)
			if a.hi >= half || b.hi >= half {
				return
			}
		}
		strict := c.op == opBvUlt || c.op == opBvSlt
		if !val { // not (x < y)  ==  y <= x
			x, y, a, b = y, x, b, a
			strict = !strict
		}
		// now: x < y (strict) or x <= y
		if strict {
			if b.hi > 0 {
				s.refine(x, absVal{a.lo, minU(a.hi, b.hi-1), a.kz, a.ko})
			}
			if a.lo < ^uint64(0) {
				s.refine(y, absVal{maxU(b.lo, a.lo+1), b.hi, b.kz, b.ko})
			}
		} else {
			s.refine(x, absVal{a.lo, minU(a.hi, b.hi), a.kz, a.ko})
			s.refine(y, absVal{maxU(b.lo, a.lo), b.hi, b.kz, b.ko})
		}
	}
}

func (s *absState) valNoMemo(t *Term) absVal {
	s.invalidate()
	return s.val(t)
}

func minU(a, b uint64) uint64 {
	if a < b {
		return a
	}
	return b
}
func maxU(a, b uint64) uint64 {
	if a > b {
		return a
	}
	return b
}

// simp rewrites a freshly built term using the facts of the current path
// (sound: every rewrite is an equality implied by the path condition).
func (in *Interp) simp(v value) value {
	t, ok := v.(*Term)
	if !ok || in.run == nil || in.run.abs == nil {
		return v
	}
	r := in.simpTerm(t)
	if r == t {
		return v
	}
	if r.isConst() {
		if r.sort.K == sBool {
			return r.cval == 1
		}
	}
	return r
}

func (in *Interp) simpTerm(t *Term) *Term {
	if t.op == opConst || t.op == opVar {
		return t
	}
	a := in.run.abs
	if len(a.facts) == 0 && len(a.known) == 0 {
		return t
	}
	switch t.sort.K {
	case sBool:
		switch a.cond(t) {
		case 1:
			return mkBool(true)
		case -1:
			return mkBool(false)
		}
		return t
	case sBV:
		w := t.sort.W
		if w > 64 {
			return t
		}
		av := a.val(t)
		if av.lo == av.hi {
			return mkBV(w, av.lo)
		}
		switch t.op {
		case opBvAnd:
			for i := 0; i < 2; i++ {
				x, c := t.args[i], t.args[1-i]
				if c.isConst() && (a.val(x).kz|c.cval)&wmask(w) == wmask(w) {
					return x
				}
			}
		case opBvOr:
			for i := 0; i < 2; i++ {
				x, c := t.args[i], t.args[1-i]
				if c.isConst() && a.val(x).ko&c.cval == c.cval {
					return x
				}
			}
		case opZext:
			if e := t.args[0]; e.op == opExtract && e.p2 == 0 && e.args[0].sort.W == w && a.val(e.args[0]).hi <= wmask(e.sort.W) {
				return e.args[0]
			}
		case opIte:
			switch a.cond(t.args[0]) {
			case 1:
				return t.args[1]
			case -1:
				return t.args[2]
			}
		}
	}
	return t
}
