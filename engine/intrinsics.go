package main

// Environment models: functions of the standard library and of third-party
// packages that are not interpreted from source (DESIGN 2.5).

import (
	"fmt"
	"go/token"
	"go/types"
	"math"
	"regexp"
	"regexp/syntax"
	"strings"
	"time"
	"unsafe"

	"golang.org/x/tools/go/ssa"
)

const (
	tokenLSS = token.LSS
	tokenGTR = token.GTR
)

type intrinsic func(in *Interp, fr *frame, args []value) value

// packages whose functions are interpreted from their SSA (their package
// initialisers are run concretely at start-up).
var interpretablePrefixes = []string{
	"github.com/dtn7/dtn7-go/",
	"github.com/dtn7/cboring",
	"github.com/howeyc/crc16",
	"github.com/RyanCarrier/dijkstra",
	"github.com/hashicorp/go-multierror",
	"github.com/hashicorp/errwrap",
}

var interpretableStd = map[string]bool{
	"errors": true, "internal/errors": true, "io": true, "bytes": true, "strings": true, "strconv": true,
	"unicode": true, "unicode/utf8": true, "sort": true, "slices": true, "math": true, "math/bits": true,
	"bufio": true, "container/heap": true, "container/list": true, "encoding/binary": true,
	"hash/crc32": true, "hash": true, "time": true, "internal/itoa": true, "internal/stringslite": true,
	"internal/byteorder": true, "cmp": true, "iter": true, "internal/bytealg": true, "path": true,
	"encoding/hex": true, "unicode/utf16": true, "maps": true, "internal/abi": false, "sync/atomic": true,
}

func (in *Interp) interpretable(pkgPath string) bool {
	if v, ok := in.canInterp[pkgPath]; ok {
		return v
	}
	r := interpretableStd[pkgPath]
	for _, p := range interpretablePrefixes {
		if strings.HasPrefix(pkgPath, p) || pkgPath+"/" == p {
			r = true
		}
	}
	in.canInterp[pkgPath] = r
	return r
}

func zeroResults(fn *ssa.Function) value {
	res := fn.Signature.Results()
	if res.Len() == 0 {
		return nil
	}
	return zero(res)
}

var rtypeSentinel = types.NewNamed(types.NewTypeName(0, nil, "gosym.rtype", nil), types.NewStruct(nil, nil), nil)

func isRtypeType(t types.Type) bool { return t == rtypeSentinel }

type rvalue struct {
	t      types.Type
	v      value
	addr   *value
	method *ssa.Function // bound method value
	recv   value
	valid  bool
}

type rtypeMethod struct {
	name string
	t    rtype
}

func mkReflectType(t types.Type) value { return iface{t: rtypeSentinel, v: rtype{t}} }

func mkReflectValue(rv *rvalue) value {
	rv.valid = true
	return structure{rv, unsafe.Pointer(nil), uintptr(0)}
}

func getRV(v value) *rvalue {
	s := v.(structure)
	rv, ok := s[0].(*rvalue)
	if !ok {
		return &rvalue{}
	}
	return rv
}

func (in *Interp) callRtypeMethod(m *rtypeMethod, args []value) value {
	t := m.t.t
	switch m.name {
	case "Elem":
		switch u := t.Underlying().(type) {
		case *types.Pointer:
			return mkReflectType(u.Elem())
		case *types.Slice:
			return mkReflectType(u.Elem())
		case *types.Array:
			return mkReflectType(u.Elem())
		case *types.Map:
			return mkReflectType(u.Elem())
		}
		panic(targetPanic{runtimeErr("reflect: Elem of invalid type " + t.String())})
	case "Name":
		if n, ok := t.(*types.Named); ok {
			return n.Obj().Name()
		}
		if b, ok := t.(*types.Basic); ok {
			return b.Name()
		}
		return ""
	case "String":
		return types.TypeString(t, func(p *types.Package) string { return p.Name() })
	case "Kind":
		return uint(reflectKind(t))
	case "Comparable":
		return types.Comparable(t)
	}
	abort(abUnsupported, "reflect.Type."+m.name)
	return nil
}

func reflectKind(t types.Type) int {
	switch u := t.Underlying().(type) {
	case *types.Basic:
		switch u.Kind() {
		case types.Bool:
			return 1
		case types.Int:
			return 2
		case types.Int8:
			return 3
		case types.Int16:
			return 4
		case types.Int32:
			return 5
		case types.Int64:
			return 6
		case types.Uint:
			return 7
		case types.Uint8:
			return 8
		case types.Uint16:
			return 9
		case types.Uint32:
			return 10
		case types.Uint64:
			return 11
		case types.Uintptr:
			return 12
		case types.Float32:
			return 13
		case types.Float64:
			return 14
		case types.String:
			return 24
		}
	case *types.Array:
		return 17
	case *types.Chan:
		return 18
	case *types.Signature:
		return 19
	case *types.Interface:
		return 20
	case *types.Map:
		return 21
	case *types.Pointer:
		return 22
	case *types.Slice:
		return 23
	case *types.Struct:
		return 25
	}
	return 0
}

// u32leaf finds the uint32/int32 leaf cell inside a (nested) struct cell, used to
// keep the state of sync primitives in their own memory.
func (in *Interp) findIntrinsic(fn *ssa.Function) intrinsic {
	name := fn.String()
	pkg := pkgPathOf(fn)
	if pkg == verifPkg {
		if fn.Parent() != nil || fn.Synthetic != "" {
			return nil
		}
		if i := in.verifIntrinsic(fn.Name()); i != nil {
			return i
		}
		return nil
	}
	if i, ok := intrinsicTable[name]; ok {
		return i
	}
	switch pkg {
	case "github.com/sirupsen/logrus":
		return func(in *Interp, fr *frame, args []value) value { return zeroResults(fn) }
	case "encoding/gob":
		if fn.Name() == "Register" || fn.Name() == "RegisterName" {
			return func(in *Interp, fr *frame, args []value) value { return nil }
		}
	}
	return nil
}

var intrinsicTable map[string]intrinsic

func init() {
	intrinsicTable = map[string]intrinsic{
		// ---- fmt ----
		"fmt.Sprintf": func(in *Interp, fr *frame, args []value) value {
			return in.sprintf(args[0], args[1].([]value))
		},
		"fmt.Errorf": func(in *Interp, fr *frame, args []value) value {
			return in.errorf(args[0], args[1].([]value))
		},
		"fmt.Sprint": func(in *Interp, fr *frame, args []value) value {
			return in.sprint(args[0].([]value), false)
		},
		"fmt.Sprintln": func(in *Interp, fr *frame, args []value) value {
			return in.sprint(args[0].([]value), true)
		},
		"fmt.Fprintf": func(in *Interp, fr *frame, args []value) value {
			s := in.sprintf(args[1], args[2].([]value))
			return in.writeTo(args[0].(iface), s)
		},
		"fmt.Fprint": func(in *Interp, fr *frame, args []value) value {
			return in.writeTo(args[0].(iface), in.sprint(args[1].([]value), false))
		},
		"fmt.Fprintln": func(in *Interp, fr *frame, args []value) value {
			return in.writeTo(args[0].(iface), in.sprint(args[1].([]value), true))
		},
		"fmt.Printf":  func(in *Interp, fr *frame, args []value) value { return tuple{0, iface{}} },
		"fmt.Println": func(in *Interp, fr *frame, args []value) value { return tuple{0, iface{}} },
		"fmt.Print":   func(in *Interp, fr *frame, args []value) value { return tuple{0, iface{}} },

		// ---- strings.Builder (unsafe inside) ----
		"(*strings.Builder).copyCheck": func(in *Interp, fr *frame, args []value) value { return nil },
		"(*strings.Builder).String": func(in *Interp, fr *frame, args []value) value {
			st := (*args[0].(*value)).(structure)
			return mkString(st[1].([]value))
		},
		"strings.Clone": func(in *Interp, fr *frame, args []value) value { return args[0] },

		// ---- internal/bytealg ----
		"internal/bytealg.IndexByte": func(in *Interp, fr *frame, args []value) value {
			return in.indexByte(args[0].([]value), args[1])
		},
		"internal/bytealg.IndexByteString": func(in *Interp, fr *frame, args []value) value {
			return in.indexByte(strBytes(args[0]), args[1])
		},
		"internal/bytealg.CountString": func(in *Interp, fr *frame, args []value) value {
			return in.countByte(strBytes(args[0]), args[1])
		},
		"internal/bytealg.Count": func(in *Interp, fr *frame, args []value) value {
			return in.countByte(args[0].([]value), args[1])
		},
		"internal/bytealg.IndexString": func(in *Interp, fr *frame, args []value) value {
			return in.indexString(strBytes(args[0]), strBytes(args[1]))
		},
		"internal/bytealg.Index": func(in *Interp, fr *frame, args []value) value {
			return in.indexString(args[0].([]value), args[1].([]value))
		},
		"internal/bytealg.MakeNoZero": func(in *Interp, fr *frame, args []value) value {
			n := in.concreteInt(args[0], "MakeNoZero")
			s := make([]value, n)
			for i := range s {
				s[i] = uint8(0)
			}
			return s
		},
		"internal/bytealg.Equal": func(in *Interp, fr *frame, args []value) value {
			return strEq(mkString(args[0].([]value)), mkString(args[1].([]value)))
		},
		"internal/bytealg.Compare": func(in *Interp, fr *frame, args []value) value {
			a, b := mkString(args[0].([]value)), mkString(args[1].([]value))
			if in.branchV(strEq(a, b)) {
				return 0
			}
			if in.branchV(strLess(a, b)) {
				return -1
			}
			return 1
		},
		"internal/stringslite.Index": func(in *Interp, fr *frame, args []value) value {
			return in.indexString(strBytes(args[0]), strBytes(args[1]))
		},
		"strings.Index": func(in *Interp, fr *frame, args []value) value {
			return in.indexString(strBytes(args[0]), strBytes(args[1]))
		},
		"bytes.Index": func(in *Interp, fr *frame, args []value) value {
			return in.indexString(args[0].([]value), args[1].([]value))
		},

		// ---- math ----
		"math.Float64bits": func(in *Interp, fr *frame, args []value) value {
			if t, ok := args[0].(*Term); ok {
				return mkFpToBV(t)
			}
			return math.Float64bits(args[0].(float64))
		},
		"math.Float64frombits": func(in *Interp, fr *frame, args []value) value {
			if t, ok := args[0].(*Term); ok {
				return mkFpOfBV(t)
			}
			return math.Float64frombits(args[0].(uint64))
		},
		"math.Float32bits": func(in *Interp, fr *frame, args []value) value {
			if t, ok := args[0].(*Term); ok {
				return mkFpToBV(t)
			}
			return math.Float32bits(args[0].(float32))
		},
		"math.Float32frombits": func(in *Interp, fr *frame, args []value) value {
			if t, ok := args[0].(*Term); ok {
				return mkFpOfBV(t)
			}
			return math.Float32frombits(args[0].(uint32))
		},
		"math.Min": func(in *Interp, fr *frame, args []value) value { return in.fminmax(args[0], args[1], true) },
		"math.Max": func(in *Interp, fr *frame, args []value) value { return in.fminmax(args[0], args[1], false) },
		"math.Pow": func(in *Interp, fr *frame, args []value) value {
			x, ok1 := args[0].(float64)
			y, ok2 := args[1].(float64)
			if ok1 && ok2 {
				return math.Pow(x, y)
			}
			// x^k for small non-negative integer k, symbolic x
			if ok2 && y == math.Trunc(y) && y >= 0 && y <= 16 {
				r := toTerm(float64(1))
				for i := 0; i < int(y); i++ {
					r = in.fpMul(r, toTerm(args[0]))
				}
				return r
			}
			abort(abUnsupported, "math.Pow with symbolic exponent")
			return nil
		},

		// ---- runtime ----
		"runtime.Gosched":   func(in *Interp, fr *frame, args []value) value { in.sched.yield(); return nil },
		"runtime.KeepAlive": func(in *Interp, fr *frame, args []value) value { return nil },
		"runtime.GC":        func(in *Interp, fr *frame, args []value) value { return nil },

		// ---- reflect ----
		"reflect.TypeOf": func(in *Interp, fr *frame, args []value) value {
			i := args[0].(iface)
			if i.t == nil {
				return iface{}
			}
			return mkReflectType(i.t)
		},
		"internal/reflectlite.TypeOf": func(in *Interp, fr *frame, args []value) value {
			i := args[0].(iface)
			if i.t == nil {
				return iface{}
			}
			return mkReflectType(i.t)
		},
		"reflect.New": func(in *Interp, fr *frame, args []value) value {
			rt := args[0].(iface).v.(rtype)
			cell := zero(rt.t)
			return mkReflectValue(&rvalue{t: types.NewPointer(rt.t), v: &cell})
		},
		"reflect.ValueOf": func(in *Interp, fr *frame, args []value) value {
			i := args[0].(iface)
			if i.t == nil {
				return structure{(*value)(nil), unsafe.Pointer(nil), uintptr(0)}
			}
			return mkReflectValue(&rvalue{t: i.t, v: i.v})
		},
		"(reflect.Value).Interface": func(in *Interp, fr *frame, args []value) value {
			rv := getRV(args[0])
			if !rv.valid {
				panic(targetPanic{runtimeErr("reflect: call of reflect.Value.Interface on zero Value")})
			}
			if _, isIface := rv.t.Underlying().(*types.Interface); isIface {
				return rv.v // already an iface
			}
			return iface{t: rv.t, v: rv.v}
		},
		"(reflect.Value).Elem": func(in *Interp, fr *frame, args []value) value {
			rv := getRV(args[0])
			switch u := rv.t.Underlying().(type) {
			case *types.Pointer:
				p := rv.v.(*value)
				if p == nil {
					return structure{(*value)(nil), unsafe.Pointer(nil), uintptr(0)}
				}
				return mkReflectValue(&rvalue{t: u.Elem(), v: copyVal(*p), addr: p})
			case *types.Interface:
				i := rv.v.(iface)
				return mkReflectValue(&rvalue{t: i.t, v: i.v})
			}
			panic(targetPanic{runtimeErr("reflect: call of reflect.Value.Elem on non-pointer Value")})
		},
		"(reflect.Value).MethodByName": func(in *Interp, fr *frame, args []value) value {
			rv := getRV(args[0])
			name := concStr(args[1], "method name")
			m := in.methodByName(rv.t, name)
			if m == nil {
				return structure{(*value)(nil), unsafe.Pointer(nil), uintptr(0)}
			}
			return mkReflectValue(&rvalue{t: m.Signature, method: m, recv: rv.v})
		},
		"(reflect.Value).Call": func(in *Interp, fr *frame, args []value) value {
			rv := getRV(args[0])
			if rv.method == nil {
				panic(targetPanic{runtimeErr("reflect: call of reflect.Value.Call on zero Value")})
			}
			cargs := []value{rv.recv}
			sig := rv.method.Signature
			for i, a := range args[1].([]value) {
				av := getRV(a)
				pt := sig.Params().At(i).Type()
				if _, isIface := pt.Underlying().(*types.Interface); isIface {
					if _, already := av.t.Underlying().(*types.Interface); already {
						cargs = append(cargs, av.v)
					} else {
						cargs = append(cargs, iface{t: av.t, v: av.v})
					}
				} else {
					cargs = append(cargs, av.v)
				}
			}
			r := in.call(fr, fr.callPos, rv.method, cargs)
			var outs []value
			res := sig.Results()
			switch res.Len() {
			case 0:
			case 1:
				outs = append(outs, mkReflectValue(&rvalue{t: res.At(0).Type(), v: r}))
			default:
				for i, x := range r.(tuple) {
					outs = append(outs, mkReflectValue(&rvalue{t: res.At(i).Type(), v: x}))
				}
			}
			return outs
		},
		"(reflect.Value).IsValid": func(in *Interp, fr *frame, args []value) value { return getRV(args[0]).valid },
		"(reflect.Value).IsNil": func(in *Interp, fr *frame, args []value) value {
			rv := getRV(args[0])
			switch x := rv.v.(type) {
			case *value:
				return x == nil
			case iface:
				return x.t == nil
			case []value:
				return x == nil
			case *omap:
				return x == nil
			}
			return false
		},
		"(reflect.Value).Len": func(in *Interp, fr *frame, args []value) value {
			switch x := getRV(args[0]).v.(type) {
			case []value:
				return len(x)
			case array:
				return len(x)
			case string, *symStr:
				return strLen(x)
			}
			abort(abUnsupported, "reflect.Value.Len")
			return nil
		},
		"(reflect.Value).Type": func(in *Interp, fr *frame, args []value) value {
			return mkReflectType(getRV(args[0]).t)
		},

		// ---- sort.Slice via the package's own pdqsort ----
		"sort.Slice":       func(in *Interp, fr *frame, args []value) value { return in.sortSlice(fr, args, false) },
		"sort.SliceStable": func(in *Interp, fr *frame, args []value) value { return in.sortSlice(fr, args, true) },

		// ---- regexp ----
		"regexp.MustCompile": func(in *Interp, fr *frame, args []value) value {
			return in.regexpCompile(concStr(args[0], "regexp"), true)
		},
		"regexp.Compile": func(in *Interp, fr *frame, args []value) value {
			return in.regexpCompile(concStr(args[0], "regexp"), false)
		},
		"(*regexp.Regexp).MatchString": func(in *Interp, fr *frame, args []value) value {
			caps := in.regexpMatch(args[0], args[1])
			return caps != nil
		},
		"(*regexp.Regexp).FindStringSubmatch": func(in *Interp, fr *frame, args []value) value {
			caps := in.regexpMatch(args[0], args[1])
			if caps == nil {
				return []value(nil)
			}
			b := strBytes(args[1])
			var out []value
			for i := 0; i+1 < len(caps); i += 2 {
				if caps[i] < 0 {
					out = append(out, "")
				} else {
					out = append(out, mkString(b[caps[i]:caps[i+1]]))
				}
			}
			return out
		},
		"(*regexp.Regexp).String": func(in *Interp, fr *frame, args []value) value {
			return getRegexp(args[0]).src
		},

		// ---- time ----
		"time.Now":         func(in *Interp, fr *frame, args []value) value { return in.timeValue() },
		"time.runtimeNano": func(in *Interp, fr *frame, args []value) value { return int64(0) },
		"time.Sleep": func(in *Interp, fr *frame, args []value) value {
			in.sched.sleep(in.concreteInt(args[0], "sleep duration"))
			return nil
		},
		"time.After": func(in *Interp, fr *frame, args []value) value {
			ch := newChannel(1)
			in.sched.addTimer(in.concreteInt(args[0], "timer duration"), 0, ch, nil)
			return ch
		},
		"time.Tick": func(in *Interp, fr *frame, args []value) value {
			ch := newChannel(1)
			d := in.concreteInt(args[0], "ticker period")
			in.sched.addTimer(d, d, ch, nil)
			return ch
		},
		"time.NewTimer": func(in *Interp, fr *frame, args []value) value {
			ch := newChannel(1)
			t := in.sched.addTimer(in.concreteInt(args[0], "timer duration"), 0, ch, nil)
			cell := value(structure{ch, t})
			return &cell
		},
		"time.NewTicker": func(in *Interp, fr *frame, args []value) value {
			ch := newChannel(1)
			d := in.concreteInt(args[0], "ticker period")
			if d <= 0 {
				panic(targetPanic{runtimeErr("non-positive interval for NewTicker")})
			}
			t := in.sched.addTimer(d, d, ch, nil)
			cell := value(structure{ch, t})
			return &cell
		},
		"time.AfterFunc": func(in *Interp, fr *frame, args []value) value {
			t := in.sched.addTimer(in.concreteInt(args[0], "timer duration"), 0, nil, args[1])
			cell := value(structure{(*channel)(nil), t})
			return &cell
		},
		"(*time.Timer).Stop": func(in *Interp, fr *frame, args []value) value {
			t := (*args[0].(*value)).(structure)[1].(*vtimer)
			was := t.active
			t.active = false
			return was
		},
		"(*time.Timer).Reset": func(in *Interp, fr *frame, args []value) value {
			t := (*args[0].(*value)).(structure)[1].(*vtimer)
			was := t.active
			t.when = in.sched.now + in.concreteInt(args[1], "timer duration")
			t.active = true
			return was
		},
		"(*time.Ticker).Stop": func(in *Interp, fr *frame, args []value) value {
			(*args[0].(*value)).(structure)[1].(*vtimer).active = false
			return nil
		},
		"(*time.Ticker).Reset": func(in *Interp, fr *frame, args []value) value {
			t := (*args[0].(*value)).(structure)[1].(*vtimer)
			d := in.concreteInt(args[1], "ticker period")
			t.when, t.period, t.active = in.sched.now+d, d, true
			return nil
		},
		"(*time.Location).get": func(in *Interp, fr *frame, args []value) value {
			// every Location is treated as UTC
			return in.global(in.prog.ImportedPackage("time").Var("utcLoc"))
		},
		"time.ParseDuration": func(in *Interp, fr *frame, args []value) value {
			d, err := time.ParseDuration(concStr(args[0], "duration"))
			if err != nil {
				return tuple{int64(0), in.mkError("time: invalid duration")}
			}
			return tuple{int64(d), iface{}}
		},
	}
	addSyncIntrinsics()
	addBinaryIntrinsics()
	addXzIntrinsics()
	addStoreIntrinsics()
	addJSONIntrinsics()
}

func (in *Interp) mkError(msg string) value {
	// errors.errorString{msg}
	errPkg := in.prog.ImportedPackage("errors")
	t := errPkg.Type("errorString").Type()
	cell := value(structure{msg})
	return iface{t: types.NewPointer(t), v: &cell}
}

func (in *Interp) fminmax(a, b value, min bool) value {
	x, ok1 := a.(float64)
	y, ok2 := b.(float64)
	if ok1 && ok2 {
		if min {
			return math.Min(x, y)
		}
		return math.Max(x, y)
	}
	ta, tb := toTerm(a), toTerm(b)
	// NaN handling: result NaN if either is NaN (the harnesses assume non-NaN operands)
	nan := mkOr(mkFpUn(opFpIsNaN, ta, boolSort, 0), mkFpUn(opFpIsNaN, tb, boolSort, 0))
	if in.branch(nan) {
		return math.NaN()
	}
	if min {
		return mkIte(mkFpCmp(opFpLt, ta, tb), ta, tb)
	}
	return mkIte(mkFpCmp(opFpLt, tb, ta), ta, tb)
}

func (in *Interp) indexByte(b []value, c value) value {
	for i, x := range b {
		if in.branchV(equalsV(types.Typ[types.Uint8], x, c)) {
			return i
		}
	}
	return -1
}

func (in *Interp) countByte(b []value, c value) value {
	n := 0
	for _, x := range b {
		if in.branchV(equalsV(types.Typ[types.Uint8], x, c)) {
			n++
		}
	}
	return n
}

func (in *Interp) indexString(s, sub []value) value {
	for i := 0; i+len(sub) <= len(s); i++ {
		if in.branchV(strEq(mkString(s[i:i+len(sub)]), mkString(sub))) {
			return i
		}
	}
	return -1
}

func (in *Interp) sortSlice(fr *frame, args []value, stable bool) value {
	sl := args[0].(iface).v.([]value)
	less := args[1]
	n := len(sl)
	swap := &hostFunc{name: "swap", f: func(in *Interp, caller *frame, a []value) value {
		i, j := asInt64(a[0]), asInt64(a[1])
		sl[i], sl[j] = sl[j], sl[i]
		return nil
	}}
	ls := structure{less, swap}
	sortPkg := in.prog.ImportedPackage("sort")
	if stable {
		in.call(fr, fr.callPos, sortPkg.Func("stable_func"), []value{ls, n})
	} else {
		limit := 0
		for x := n; x > 0; x >>= 1 {
			limit++
		}
		in.call(fr, fr.callPos, sortPkg.Func("pdqsort_func"), []value{ls, 0, n, limit})
	}
	return nil
}

// ---- fmt ----

type fmtPiece struct {
	s      value // string or *symStr
	opaque bool
}

// stringify renders one operand for %v / %s.
func (in *Interp) stringify(a value, verb byte) (value, bool) {
	i, isIface := a.(iface)
	var t types.Type
	v := a
	if isIface {
		if i.t == nil {
			return "<nil>", true
		}
		t, v = i.t, i.v
		// error / Stringer
		for _, mname := range []string{"Error", "String"} {
			if m := in.methodByName(t, mname); m != nil && m.Signature.Params().Len() == 0 && m.Signature.Results().Len() == 1 {
				if b, ok := m.Signature.Results().At(0).Type().(*types.Basic); ok && b.Kind() == types.String {
					if p, isPtr := v.(*value); isPtr && p == nil {
						return "<nil>", true
					}
					r := in.call(nil, 0, m, []value{v})
					return r, true
				}
			}
		}
	}
	switch x := v.(type) {
	case string:
		return x, true
	case *symStr:
		if x.opaque != "" {
			return nil, false
		}
		return x, true
	case *Term:
		return nil, false
	case bool, int, int8, int16, int32, int64, uint, uint8, uint16, uint32, uint64, uintptr, float32, float64:
		return fmt.Sprintf("%"+string(verb), x), true
	case []value:
		// []byte with %s / %x, otherwise element-wise
		allBytes := true
		for _, e := range x {
			if _, ok := e.(uint8); !ok {
				allBytes = false
			}
		}
		if allBytes {
			bs := make([]byte, len(x))
			for k, e := range x {
				bs[k] = e.(uint8)
			}
			return fmt.Sprintf("%"+string(verb), bs), true
		}
		if verb == 's' && t != nil {
			if sl, ok := t.Underlying().(*types.Slice); ok {
				if b, ok := sl.Elem().Underlying().(*types.Basic); ok && b.Kind() == types.Uint8 {
					return mkString(x), true
				}
			}
		}
		for _, e := range x {
			if hasSym(e) {
				return nil, false
			}
		}
		var parts []string
		for _, e := range x {
			s, ok := in.stringify(wrapForFmt(e, elemTypeOf(t)), 'v')
			if !ok {
				return nil, false
			}
			cs, ok := s.(string)
			if !ok {
				return nil, false
			}
			parts = append(parts, cs)
		}
		return "[" + strings.Join(parts, " ") + "]", true
	case *value:
		if x == nil {
			return "<nil>", true
		}
		return "0xc000000000", true
	}
	return toString(v), true
}

func elemTypeOf(t types.Type) types.Type {
	if t == nil {
		return nil
	}
	switch u := t.Underlying().(type) {
	case *types.Slice:
		return u.Elem()
	case *types.Array:
		return u.Elem()
	}
	return nil
}

func wrapForFmt(e value, t types.Type) value {
	if _, ok := e.(iface); ok || t == nil {
		return e
	}
	return iface{t: t, v: e}
}

func (in *Interp) sprintf(format value, args []value) value {
	f := concStr(format, "format string")
	var pieces []value
	opaque := false
	ai := 0
	lit := strings.Builder{}
	flush := func() {
		if lit.Len() > 0 {
			pieces = append(pieces, lit.String())
			lit.Reset()
		}
	}
	for i := 0; i < len(f); i++ {
		if f[i] != '%' {
			lit.WriteByte(f[i])
			continue
		}
		j := i + 1
		for j < len(f) && strings.IndexByte("+-# 0123456789.*", f[j]) >= 0 {
			j++
		}
		if j >= len(f) {
			lit.WriteString(f[i:])
			break
		}
		verb := f[j]
		spec := f[i : j+1]
		i = j
		if verb == '%' {
			lit.WriteByte('%')
			continue
		}
		if ai >= len(args) {
			lit.WriteString("%!" + string(verb) + "(MISSING)")
			continue
		}
		a := args[ai]
		ai++
		flush()
		iv, _ := a.(iface)
		switch verb {
		case 'v', 's':
			s, ok := in.stringify(a, verb)
			if !ok {
				opaque = true
			} else {
				pieces = append(pieces, s)
			}
		case 'T':
			if iv.t == nil {
				pieces = append(pieces, "<nil>")
			} else {
				pieces = append(pieces, types.TypeString(iv.t, func(p *types.Package) string { return p.Name() }))
			}
		case 'w':
			s, ok := in.stringify(a, 'v')
			if !ok {
				opaque = true
			} else {
				pieces = append(pieces, s)
			}
		default:
			// %d of a symbolic unsigned integer: decimal digits as terms (digit count is a path decision)
			if t, isTerm := iv.v.(*Term); isTerm && verb == 'd' && spec == "%d" && t.sort.K == sBV && iv.t != nil {
				if bt, okb := iv.t.Underlying().(*types.Basic); okb && isUnsigned(bt) {
					pieces = append(pieces, in.symDecimal(t))
					continue
				}
			}
			// numeric / other verbs: host formatting on concrete operands
			hv, ok := hostScalar(iv.v)
			if !ok {
				if s, ok2 := iv.v.(string); ok2 {
					pieces = append(pieces, fmt.Sprintf(spec, s))
				} else {
					opaque = true
				}
			} else {
				pieces = append(pieces, fmt.Sprintf(spec, hv))
			}
		}
	}
	flush()
	if opaque {
		return &symStr{opaque: "fmt(" + f + ")"}
	}
	var r value = ""
	for _, p := range pieces {
		r = strConcat(r, p)
	}
	return r
}

func hostScalar(v value) (interface{}, bool) {
	switch x := v.(type) {
	case bool, int, int8, int16, int32, int64, uint, uint8, uint16, uint32, uint64, uintptr, float32, float64:
		return x, true
	case []value:
		bs := make([]byte, len(x))
		for i, e := range x {
			b, ok := e.(uint8)
			if !ok {
				return nil, false
			}
			bs[i] = b
		}
		return bs, true
	case array:
		return hostScalar([]value(x))
	}
	return nil, false
}

func (in *Interp) sprint(args []value, ln bool) value {
	var r value = ""
	for i, a := range args {
		if i > 0 && ln {
			r = strConcat(r, " ")
		}
		s, ok := in.stringify(a, 'v')
		if !ok {
			return &symStr{opaque: "fmt.Sprint"}
		}
		r = strConcat(r, s)
	}
	if ln {
		r = strConcat(r, "\n")
	}
	return r
}

func (in *Interp) errorf(format value, args []value) value {
	msg := in.sprintf(format, args)
	f := concStr(format, "format")
	fmtPkg := in.prog.ImportedPackage("fmt")
	if strings.Contains(f, "%w") && fmtPkg != nil {
		// *fmt.wrapError{msg, err}
		var wrapped value = iface{}
		for _, a := range args {
			if i, ok := a.(iface); ok && i.t != nil && in.methodByName(i.t, "Error") != nil {
				wrapped = i
			}
		}
		t := fmtPkg.Type("wrapError").Type()
		cell := value(structure{msg, wrapped})
		return iface{t: types.NewPointer(t), v: &cell}
	}
	errPkg := in.prog.ImportedPackage("errors")
	t := errPkg.Type("errorString").Type()
	cell := value(structure{msg})
	return iface{t: types.NewPointer(t), v: &cell}
}

// writeTo calls w.Write(bytes of s) through the interpreted Writer.
func (in *Interp) writeTo(w iface, s value) value {
	if ss, ok := s.(*symStr); ok && ss.opaque != "" {
		abort(abUnsupported, "writing an opaque formatted string to a Writer: "+ss.opaque)
	}
	if w.t == nil {
		rtPanic("invalid memory address or nil pointer dereference")
	}
	m := in.methodByName(w.t, "Write")
	b := append([]value(nil), strBytes(s)...)
	return in.call(nil, 0, m, []value{w.v, b})
}

// ---- regexp ----

type regexpModel struct {
	src  string
	re   *regexp.Regexp
	prog *syntax.Prog
	ncap int
}

var regexpCache = map[string]*regexpModel{}

func (in *Interp) regexpCompile(src string, must bool) value {
	rm, ok := regexpCache[src]
	if !ok {
		re, err := regexp.Compile(src)
		if err == nil {
			parsed, _ := syntax.Parse(src, syntax.Perl)
			ncap := parsed.MaxCap()
			prog, _ := syntax.Compile(parsed.Simplify())
			rm = &regexpModel{src: src, re: re, prog: prog, ncap: ncap}
		} else {
			rm = &regexpModel{src: src}
		}
		regexpCache[src] = rm
	}
	if rm.re == nil {
		if must {
			panic(targetPanic{runtimeErr("regexp: Compile(" + src + "): error")})
		}
		return tuple{(*value)(nil), in.mkError("regexp: compile error")}
	}
	cell := value(structure{rm})
	if must {
		return &cell
	}
	return tuple{&cell, iface{}}
}

func getRegexp(v value) *regexpModel {
	return (*v.(*value)).(structure)[0].(*regexpModel)
}

// regexpMatch returns the capture positions of the leftmost-first match or nil.
func (in *Interp) regexpMatch(rev value, s value) []int {
	rm := getRegexp(rev)
	if cs, ok := s.(string); ok {
		return rm.re.FindStringSubmatchIndex(cs)
	}
	b := strBytes(s)
	// backtracking over the compiled program; each test of a symbolic byte is a
	// decision of the path, so within one path every outcome is concrete and the
	// usual priority order gives leftmost-first semantics.
	ncap := 2 * (rm.ncap + 1)
	for start := 0; start <= len(b); start++ {
		caps := make([]int, ncap)
		for i := range caps {
			caps[i] = -1
		}
		visited := map[[2]int]bool{}
		if r := in.reBacktrack(rm.prog, b, rm.prog.Start, start, caps, visited, 0); r != nil {
			r[0] = start
			return r
		}
		// anchored at the beginning? then later starts cannot match
		if rm.prog.StartCond()&syntax.EmptyBeginText != 0 {
			break
		}
	}
	return nil
}

func (in *Interp) reBacktrack(p *syntax.Prog, b []value, pc, pos int, caps []int, visited map[[2]int]bool, depth int) []int {
	if depth > 10000 {
		abort(abUnwind, "regexp backtracking depth")
	}
	for {
		k := [2]int{pc, pos}
		if visited[k] {
			return nil
		}
		visited[k] = true
		inst := &p.Inst[pc]
		switch inst.Op {
		case syntax.InstFail:
			return nil
		case syntax.InstMatch:
			r := append([]int(nil), caps...)
			r[1] = pos
			return r
		case syntax.InstNop:
			pc = int(inst.Out)
		case syntax.InstCapture:
			if int(inst.Arg) < len(caps) {
				old := caps[inst.Arg]
				caps[inst.Arg] = pos
				r := in.reBacktrack(p, b, int(inst.Out), pos, caps, visited, depth+1)
				caps[inst.Arg] = old
				return r
			}
			pc = int(inst.Out)
		case syntax.InstEmptyWidth:
			need := syntax.EmptyOp(inst.Arg)
			var have syntax.EmptyOp
			if pos == 0 {
				have |= syntax.EmptyBeginText | syntax.EmptyBeginLine
			}
			if pos == len(b) {
				have |= syntax.EmptyEndText | syntax.EmptyEndLine
			}
			if need&^have&(syntax.EmptyBeginLine|syntax.EmptyEndLine|syntax.EmptyWordBoundary|syntax.EmptyNoWordBoundary) != 0 {
				abort(abUnsupported, "regexp line/word assertions on symbolic text")
			}
			if need&^have != 0 {
				return nil
			}
			pc = int(inst.Out)
		case syntax.InstAlt, syntax.InstAltMatch:
			if r := in.reBacktrack(p, b, int(inst.Out), pos, caps, visited, depth+1); r != nil {
				return r
			}
			pc = int(inst.Arg)
		case syntax.InstRune, syntax.InstRune1, syntax.InstRuneAny, syntax.InstRuneAnyNotNL:
			if pos >= len(b) {
				return nil
			}
			ok, width := in.reRuneMatches(inst, b, pos)
			if !ok {
				return nil
			}
			pos += width
			pc = int(inst.Out)
		default:
			abort(abUnsupported, "regexp instruction")
		}
	}
}

// reRuneMatches decodes the rune at b[pos] and tests it against inst.
// Symbolic bytes: ASCII is handled in full; a symbolic byte >= 0x80 is handled
// when its neighbourhood is concrete enough to decode it (a lone byte between
// ASCII bytes is invalid UTF-8 = U+FFFD of width 1, exactly as package regexp
// sees it); anything else ends the path as unsupported.
func (in *Interp) reRuneMatches(inst *syntax.Inst, b []value, pos int) (bool, int) {
	c := b[pos]
	if cb, ok := c.(uint8); ok {
		if cb < 0x80 {
			return inst.MatchRune(rune(cb)), 1
		}
		var buf []byte
		for j := pos; j < len(b) && j < pos+4; j++ {
			x, ok := b[j].(uint8)
			if !ok {
				if cb >= 0xC2 {
					if !nonASCIIUniform(inst) {
						abort(abUnsupported, "regexp class that splits the non-ASCII range over symbolic text")
					}
					return inst.MatchRune(0xFFFD), in.utf8Width(b, pos)
				}
				break
			}
			buf = append(buf, x)
		}
		r, sz := decodeRune(buf)
		return inst.MatchRune(r), sz
	}
	t := c.(*Term)
	if !in.branch(mkBvCmp(opBvUlt, t, mkBV(8, 0x80))) {
		// non-ASCII: decode the UTF-8 sequence symbolically (forking on the byte
		// classes exactly as unicode/utf8 distinguishes them). The rune value itself is
		// not tracked: every class of the pattern must treat all non-ASCII runes alike.
		if !nonASCIIUniform(inst) {
			abort(abUnsupported, "regexp class that splits the non-ASCII range over symbolic text")
		}
		return inst.MatchRune(0xFFFD), in.utf8Width(b, pos)
	}
	// build the class condition over ASCII
	cond := mkBool(false)
	lo := -1
	for r := 0; r <= 0x80; r++ {
		m := r < 0x80 && inst.MatchRune(rune(r))
		if m && lo < 0 {
			lo = r
		}
		if !m && lo >= 0 {
			hi := r - 1
			var c1 *Term
			if lo == hi {
				c1 = mkEq(t, mkBV(8, uint64(lo)))
			} else {
				c1 = mkAnd(mkBvCmp(opBvUle, mkBV(8, uint64(lo)), t), mkBvCmp(opBvUle, t, mkBV(8, uint64(hi))))
			}
			cond = mkOr(cond, c1)
			lo = -1
		}
	}
	return in.branch(cond), 1
}

// nonASCIIUniform: the instruction matches either every rune >= 0x80 or none.
func nonASCIIUniform(inst *syntax.Inst) bool {
	switch inst.Op {
	case syntax.InstRuneAny, syntax.InstRuneAnyNotNL:
		return true
	}
	first := inst.MatchRune(0x80)
	for _, r := range []rune{0xFF, 0x100, 0x7FF, 0x800, 0xFFFD, 0xFFFF, 0x10000, 0x10FFFF} {
		if inst.MatchRune(r) != first {
			return false
		}
	}
	for i := 0; i+1 < len(inst.Rune); i += 2 {
		lo, hi := inst.Rune[i], inst.Rune[i+1]
		if hi >= 0x80 && !(lo <= 0x80 && hi >= 0x10FFFF) && !first {
			return false
		}
		if first && lo > 0x80 && lo <= 0x10FFFF {
			// a range starting inside the non-ASCII area: must be contiguous with another; be conservative
			return false
		}
	}
	return true
}

// utf8Width returns the number of bytes package unicode/utf8 consumes for the
// (non-ASCII) sequence starting at b[pos]: 2..4 for a valid encoding, else 1.
func (in *Interp) utf8Width(b []value, pos int) int {
	inRange := func(v value, lo, hi uint8) bool {
		switch x := v.(type) {
		case uint8:
			return x >= lo && x <= hi
		case *Term:
			return in.branch(mkAnd(mkBvCmp(opBvUle, mkBV(8, uint64(lo)), x), mkBvCmp(opBvUle, x, mkBV(8, uint64(hi)))))
		}
		return false
	}
	at := func(i int) (value, bool) {
		if i < len(b) {
			return b[i], true
		}
		return nil, false
	}
	cont := func(i int, lo, hi uint8) bool {
		v, ok := at(i)
		return ok && inRange(v, lo, hi)
	}
	c := b[pos]
	switch {
	case inRange(c, 0xC2, 0xDF):
		if cont(pos+1, 0x80, 0xBF) {
			return 2
		}
	case inRange(c, 0xE0, 0xE0):
		if cont(pos+1, 0xA0, 0xBF) && cont(pos+2, 0x80, 0xBF) {
			return 3
		}
	case inRange(c, 0xED, 0xED):
		if cont(pos+1, 0x80, 0x9F) && cont(pos+2, 0x80, 0xBF) {
			return 3
		}
	case inRange(c, 0xE1, 0xEF):
		if cont(pos+1, 0x80, 0xBF) && cont(pos+2, 0x80, 0xBF) {
			return 3
		}
	case inRange(c, 0xF0, 0xF0):
		if cont(pos+1, 0x90, 0xBF) && cont(pos+2, 0x80, 0xBF) && cont(pos+3, 0x80, 0xBF) {
			return 4
		}
	case inRange(c, 0xF4, 0xF4):
		if cont(pos+1, 0x80, 0x8F) && cont(pos+2, 0x80, 0xBF) && cont(pos+3, 0x80, 0xBF) {
			return 4
		}
	case inRange(c, 0xF1, 0xF3):
		if cont(pos+1, 0x80, 0xBF) && cont(pos+2, 0x80, 0xBF) && cont(pos+3, 0x80, 0xBF) {
			return 4
		}
	}
	return 1
}

// symDecimal renders an unsigned symbolic integer in decimal. The number of
// digits is decided by branching; the digits are (x / 10^i) % 10 + '0'.
func (in *Interp) symDecimal(t *Term) value {
	w := t.sort.W
	x := t
	if w < 64 {
		x = mkZext(t, 64-w)
	}
	nd := 1
	pow := uint64(10)
	for nd < 20 {
		if in.branch(mkBvCmp(opBvUlt, x, mkBV(64, pow))) {
			break
		}
		nd++
		if nd < 20 {
			pow *= 10
		}
	}
	digits := make([]value, nd)
	p := uint64(1)
	for i := 0; i < nd; i++ {
		q := x
		if p > 1 {
			q = mkBvBin(opBvUDiv, x, mkBV(64, p))
		}
		d := mkBvBin(opBvURem, q, mkBV(64, 10))
		ch := mkBvBin(opBvAdd, mkExtract(d, 7, 0), mkBV(8, '0'))
		digits[nd-1-i] = in.simp(value(ch))
		if c, ok := digits[nd-1-i].(*Term); ok && c.isConst() {
			digits[nd-1-i] = uint8(c.cval)
		}
		if i < nd-1 {
			p *= 10
		}
	}
	return mkString(digits)
}
