package main

// Symbolic interpreter for go/ssa. Structure follows
// golang.org/x/tools/go/ssa/interp (BSD licence, see LICENSE.xtools), with
// symbolic scalars, solver-decided branching by re-execution, deterministic
// maps, cooperative goroutines and environment models added.

import (
	"time"
	"fmt"
	"go/token"
	"go/types"
	"os"
	"runtime"
	"slices"
	"strings"

	"golang.org/x/tools/go/ssa"
)

type abortKind int

const (
	abInfeasible abortKind = iota
	abAssume
	abUnsupported
	abUnwind
	abViolation // path ended by a failed concrete assertion
	abDeadlock
	abKill // goroutine torn down at path end
	abCap  // enumeration cap exceeded on this path (reduced bound)
)

var abortNames = [...]string{"infeasible", "assume", "unsupported", "unwind", "violation", "deadlock", "kill", "cap"}

type pathAbort struct {
	kind abortKind
	msg  string
}

func abort(k abortKind, msg string) { panic(pathAbort{k, msg}) }

type deferred struct {
	fn    value
	args  []value
	instr *ssa.Defer
	tail  *deferred
}

type fnInfo struct {
	regs  map[ssa.Value]int
	n     int
	intr  intrinsic
	known bool
}

type frame struct {
	i                *Interp
	g                *goroutine
	caller           *frame
	fn               *ssa.Function
	info             *fnInfo
	block, prevBlock *ssa.BasicBlock
	env              []value
	locals           []value
	defers           *deferred
	result           value
	panicking        bool
	panic            interface{}
	phitemps         []value
	callPos          token.Pos
}

type decision struct {
	kind     byte // 'b' branch, 'e' enumerate, 'a' assume/assert-assume
	choice   int
	n        int
	vals     []uint64
	models   []Model
	altModel Model
	asserted bool
	unknown  bool
}

type Interp struct {
	prog     *ssa.Program
	globals  map[*ssa.Global]*value
	consts   map[*ssa.Const]value
	fninfo   map[*ssa.Function]*fnInfo
	initDone map[*ssa.Package]bool
	initing  bool
	canInterp map[string]bool // package path -> functions may be interpreted

	runtimeErrorString types.Type

	solver *Solver
	stats  SolverStats
	trail  []decision
	pos    int

	cfg *HarnessCfg
	run *pathState // per-path state, reset on each re-execution
	res *HarnessResult

	sched *scheduler

	totalInstrs int64
	verbose     int
	curInstr    ssa.Instruction
	deadline    time.Time
	deadlineHit bool
	curFn       *ssa.Function

	curFrame          *frame
	obligationAssumed map[obKey]bool
	snap              map[*ssa.Global]value

	// environment models
	clockSec  value
	clockNsec value
	files     map[string]*fileData
	kvs       map[string]*kvModel
}

func (in *Interp) info(fn *ssa.Function) *fnInfo {
	if fi, ok := in.fninfo[fn]; ok {
		return fi
	}
	fi := &fnInfo{regs: map[ssa.Value]int{}}
	add := func(v ssa.Value) {
		fi.regs[v] = fi.n
		fi.n++
	}
	for _, p := range fn.Params {
		add(p)
	}
	for _, fv := range fn.FreeVars {
		add(fv)
	}
	for _, l := range fn.Locals {
		add(l)
	}
	for _, b := range fn.Blocks {
		for _, instr := range b.Instrs {
			if v, ok := instr.(ssa.Value); ok {
				if _, dup := fi.regs[v]; !dup {
					add(v)
				}
			}
		}
	}
	in.fninfo[fn] = fi
	return fi
}

func (fr *frame) get(key ssa.Value) value {
	switch key := key.(type) {
	case nil:
		return nil
	case *ssa.Function, *ssa.Builtin:
		return key
	case *ssa.Const:
		if v, ok := fr.i.consts[key]; ok {
			return v
		}
		v := constValue(key)
		fr.i.consts[key] = v
		return v
	case *ssa.Global:
		return fr.i.global(key)
	}
	if r, ok := fr.info.regs[key]; ok {
		return fr.env[r]
	}
	panic(fmt.Sprintf("get: no value for %T: %v", key, key.Name()))
}

func (fr *frame) set(key ssa.Value, v value) {
	fr.env[fr.info.regs[key]] = v
}

func (in *Interp) global(g *ssa.Global) *value {
	if p, ok := in.globals[g]; ok {
		return p
	}
	cell := zero(deref(g.Type()))
	in.globals[g] = &cell
	return &cell
}

func deref(t types.Type) types.Type {
	if p, ok := t.Underlying().(*types.Pointer); ok {
		return p.Elem()
	}
	panic("deref of non-pointer " + t.String())
}

func runtimeErr(msg string) value {
	return iface{t: theInterp.runtimeErrorString, v: msg}
}

func rtPanic(msg string) {
	if debugPanic {
		fmt.Fprintf(os.Stderr, "RTPANIC %s\n%s", msg, theInterp.stackString())
	}
	panic(targetPanic{runtimeErr("runtime error: " + msg)})
}

var debugPanic = os.Getenv("GOSYM_PANICTRACE") != ""

func (in *Interp) stackString() string {
	var sb strings.Builder
	for fr := in.curFrame; fr != nil; fr = fr.caller {
		fmt.Fprintf(&sb, "    %s (called at %s)\n", fr.fn, func() string {
			if fr.caller != nil {
				return fr.caller.posStr(fr.callPos)
			}
			return "-"
		}())
	}
	return sb.String()
}

var theInterp *Interp
var debugImplied = os.Getenv("GOSYM_DEBUG_IMPLIED") != ""

// runDefer runs a deferred call d.
func (fr *frame) runDefer(d *deferred) {
	var ok bool
	defer func() {
		if !ok {
			r := recover()
			if pa, isAbort := r.(pathAbort); isAbort {
				panic(pa)
			}
			fr.panicking = true
			fr.panic = r
		}
	}()
	fr.i.call(fr, d.instr.Pos(), d.fn, d.args)
	ok = true
}

func (fr *frame) runDefers() {
	for d := fr.defers; d != nil; d = d.tail {
		fr.runDefer(d)
	}
	fr.defers = nil
	if fr.panicking {
		panic(fr.panic)
	}
}

func (in *Interp) lookupMethod(typ types.Type, meth *types.Func) *ssa.Function {
	return in.prog.LookupMethod(typ, meth.Pkg(), meth.Name())
}

func (fr *frame) posStr(pos token.Pos) string {
	if pos == token.NoPos {
		return fr.fn.String()
	}
	p := fr.i.prog.Fset.Position(pos)
	return fmt.Sprintf("%s:%d", shortPath(p.Filename), p.Line)
}

func shortPath(p string) string {
	if i := strings.Index(p, "/pkg/mod/"); i >= 0 {
		return p[i+9:]
	}
	return strings.TrimPrefix(p, repoDir+"/")
}

// visitInstr interprets one instruction. Returns false after a Return.
func (fr *frame) visitInstr(instr ssa.Instruction) bool {
	in := fr.i
	switch instr := instr.(type) {
	case *ssa.DebugRef:

	case *ssa.UnOp:
		fr.set(instr, in.simp(fr.unop(instr, fr.get(instr.X))))

	case *ssa.BinOp:
		fr.set(instr, in.simp(in.binop(instr.Op, instr.X.Type(), instr.Y.Type(), fr.get(instr.X), fr.get(instr.Y))))

	case *ssa.Call:
		fn, args := fr.prepareCall(&instr.Call)
		fr.set(instr, in.call(fr, instr.Pos(), fn, args))

	case *ssa.ChangeInterface:
		fr.set(instr, fr.get(instr.X))

	case *ssa.ChangeType:
		fr.set(instr, fr.get(instr.X))

	case *ssa.Convert:
		fr.set(instr, in.simp(in.conv(instr.Type(), instr.X.Type(), fr.get(instr.X))))

	case *ssa.SliceToArrayPointer:
		x := fr.get(instr.X).([]value)
		arr := deref(instr.Type()).Underlying().(*types.Array)
		if arr.Len() > int64(len(x)) {
			rtPanic("cannot convert slice to array pointer: length mismatch")
		}
		if x == nil {
			fr.set(instr, zero(instr.Type()))
		} else {
			v := value(array(x[:arr.Len()]))
			fr.set(instr, &v)
		}

	case *ssa.MakeInterface:
		fr.set(instr, iface{t: instr.X.Type(), v: fr.get(instr.X)})

	case *ssa.Extract:
		fr.set(instr, fr.get(instr.Tuple).(tuple)[instr.Index])

	case *ssa.Slice:
		fr.set(instr, in.slice(fr.get(instr.X), fr.get(instr.Low), fr.get(instr.High), fr.get(instr.Max)))

	case *ssa.Return:
		switch len(instr.Results) {
		case 0:
		case 1:
			fr.result = fr.get(instr.Results[0])
		default:
			res := make(tuple, len(instr.Results))
			for i, r := range instr.Results {
				res[i] = fr.get(r)
			}
			fr.result = res
		}
		fr.block = nil
		return false

	case *ssa.RunDefers:
		fr.runDefers()

	case *ssa.Panic:
		panic(targetPanic{fr.get(instr.X)})

	case *ssa.Send:
		in.chanSend(fr.get(instr.Chan).(*channel), fr.get(instr.X))

	case *ssa.Store:
		in.store(fr.get(instr.Addr), fr.get(instr.Val))

	case *ssa.If:
		succ := 1
		if in.branchV(fr.get(instr.Cond)) {
			succ = 0
		}
		fr.prevBlock, fr.block = fr.block, fr.block.Succs[succ]

	case *ssa.Jump:
		fr.prevBlock, fr.block = fr.block, fr.block.Succs[0]

	case *ssa.Defer:
		fn, args := fr.prepareCall(&instr.Call)
		defers := &fr.defers
		if instr.DeferStack != nil {
			if into := fr.get(instr.DeferStack); into != nil {
				defers = into.(**deferred)
			}
		}
		*defers = &deferred{fn: fn, args: args, instr: instr, tail: *defers}

	case *ssa.Go:
		fn, args := fr.prepareCall(&instr.Call)
		in.spawn(fn, args, instr.Pos())

	case *ssa.MakeChan:
		n := in.concreteInt(fr.get(instr.Size), "chan size")
		fr.set(instr, newChannel(int(n)))

	case *ssa.Alloc:
		var addr *value
		if instr.Heap {
			addr = new(value)
			fr.set(instr, addr)
		} else {
			addr = fr.get(instr).(*value)
		}
		*addr = zero(deref(instr.Type()))

	case *ssa.MakeSlice:
		lenV, capV := fr.get(instr.Len), fr.get(instr.Cap)
		tElt := instr.Type().Underlying().(*types.Slice).Elem()
		l, c := in.makeSize(lenV, capV, isUnsigned(instr.Len.Type().Underlying().(*types.Basic)), tElt, fr.posStr(instr.Pos()))
		s := make([]value, c)
		for i := range s {
			s[i] = zero(tElt)
		}
		fr.set(instr, s[:l])

	case *ssa.MakeMap:
		mt := instr.Type().Underlying().(*types.Map)
		if instr.Reserve != nil {
			in.mapReserve(fr.get(instr.Reserve), isUnsigned(instr.Reserve.Type().Underlying().(*types.Basic)), elemSize(mt.Key())+elemSize(mt.Elem())+8, fr.posStr(instr.Pos()))
		}
		fr.set(instr, newMap(mt.Key()))

	case *ssa.Range:
		fr.set(instr, in.rangeIter(fr.get(instr.X), instr.X.Type()))

	case *ssa.Next:
		fr.set(instr, fr.get(instr.Iter).(iter).next())

	case *ssa.FieldAddr:
		p := fr.get(instr.X).(*value)
		if p == nil {
			rtPanic("invalid memory address or nil pointer dereference")
		}
		fr.set(instr, &(*p).(structure)[instr.Field])

	case *ssa.Field:
		fr.set(instr, fr.get(instr.X).(structure)[instr.Field])

	case *ssa.IndexAddr:
		x := fr.get(instr.X)
		idx := fr.get(instr.Index)
		var base []value
		switch x := x.(type) {
		case []value:
			base = x
		case *value:
			if x == nil {
				rtPanic("invalid memory address or nil pointer dereference")
			}
			base = (*x).(array)
		default:
			panic(fmt.Sprintf("unexpected x type in IndexAddr: %T", x))
		}
		if t, ok := idx.(*Term); ok {
			fr.set(instr, in.symIndexAddr(base, t, instr.Index.Type()))
		} else {
			i := asInt64(idx)
			if i < 0 || i >= int64(len(base)) {
				rtPanic(fmt.Sprintf("index out of range [%d] with length %d", i, len(base)))
			}
			fr.set(instr, &base[i])
		}

	case *ssa.Index:
		x := fr.get(instr.X)
		idx := fr.get(instr.Index)
		var base []value
		switch x := x.(type) {
		case array:
			base = x
		case string, *symStr:
			base = strBytes(x)
		default:
			panic(fmt.Sprintf("unexpected x type in Index: %T", x))
		}
		if t, ok := idx.(*Term); ok {
			r := in.symIndexAddr(base, t, instr.Index.Type())
			fr.set(instr, in.load(r))
		} else {
			i := asInt64(idx)
			if i < 0 || i >= int64(len(base)) {
				rtPanic(fmt.Sprintf("index out of range [%d] with length %d", i, len(base)))
			}
			fr.set(instr, copyVal(base[i]))
		}

	case *ssa.Lookup:
		x := fr.get(instr.X)
		idx := fr.get(instr.Index)
		switch x := x.(type) {
		case *omap:
			v, ok := x.lookup(in, idx)
			if !ok {
				v = zero(instr.X.Type().Underlying().(*types.Map).Elem())
			} else {
				v = copyVal(v)
			}
			if instr.CommaOk {
				v = tuple{v, ok}
			}
			fr.set(instr, v)
		default:
			panic(fmt.Sprintf("unexpected x type in Lookup: %T", x))
		}

	case *ssa.MapUpdate:
		m := fr.get(instr.Map).(*omap)
		if m == nil {
			panic(targetPanic{runtimeErr("assignment to entry in nil map")})
		}
		m.insert(in, copyVal(fr.get(instr.Key)), copyVal(fr.get(instr.Value)))

	case *ssa.TypeAssert:
		fr.set(instr, in.typeAssert(instr, fr.get(instr.X).(iface)))

	case *ssa.MakeClosure:
		bindings := make([]value, len(instr.Bindings))
		for i, b := range instr.Bindings {
			bindings[i] = fr.get(b)
		}
		fr.set(instr, &closure{instr.Fn.(*ssa.Function), bindings})

	case *ssa.Select:
		fr.set(instr, in.doSelect(fr, instr))

	default:
		panic(fmt.Sprintf("unexpected instruction: %T", instr))
	}
	return true
}

func (fr *frame) prepareCall(call *ssa.CallCommon) (fn value, args []value) {
	v := fr.get(call.Value)
	if call.Method == nil {
		fn = v
	} else {
		recv := v.(iface)
		if recv.t == nil {
			rtPanic("invalid memory address or nil pointer dereference (method call on nil interface)")
		}
		if rt, ok := recv.v.(rtype); ok && isRtypeType(recv.t) {
			// reflect.Type method on the rtype model
			return &rtypeMethod{name: call.Method.Name(), t: rt}, fr.argVals(call)
		}
		f := fr.i.lookupMethod(recv.t, call.Method)
		if f == nil {
			panic(fmt.Sprintf("method set for dynamic type %v does not contain %s", recv.t, call.Method))
		}
		fn = f
		args = append(args, recv.v)
	}
	for _, arg := range call.Args {
		args = append(args, fr.get(arg))
	}
	return
}

func (fr *frame) argVals(call *ssa.CallCommon) []value {
	var args []value
	for _, arg := range call.Args {
		args = append(args, fr.get(arg))
	}
	return args
}

func (in *Interp) call(caller *frame, callpos token.Pos, fn value, args []value) value {
	switch fn := fn.(type) {
	case *ssa.Function:
		if fn == nil {
			rtPanic("invalid memory address or nil pointer dereference (call of nil func)")
		}
		return in.callSSA(caller, callpos, fn, args, nil)
	case *closure:
		return in.callSSA(caller, callpos, fn.Fn, args, fn.Env)
	case *ssa.Builtin:
		return in.callBuiltin(caller, callpos, fn, args)
	case *rtypeMethod:
		return in.callRtypeMethod(fn, args)
	case *hostFunc:
		return fn.f(in, caller, args)
	}
	panic(fmt.Sprintf("cannot call %T", fn))
}

// hostFunc is a function value implemented by the engine (e.g. reflect.Value.Call targets).
type hostFunc struct {
	name string
	f    func(in *Interp, caller *frame, args []value) value
}

func pkgPathOf(fn *ssa.Function) string {
	if fn.Pkg != nil {
		return fn.Pkg.Pkg.Path()
	}
	if o := fn.Object(); o != nil && o.Pkg() != nil {
		return o.Pkg().Path()
	}
	if fn.Parent() != nil {
		return pkgPathOf(fn.Parent())
	}
	if fn.Origin() != nil {
		return pkgPathOf(fn.Origin())
	}
	// wrappers / bound methods: find package from the receiver type
	if fn.Signature.Recv() != nil {
		t := fn.Signature.Recv().Type()
		if p, ok := t.(*types.Pointer); ok {
			t = p.Elem()
		}
		if n, ok := t.(*types.Named); ok && n.Obj().Pkg() != nil {
			return n.Obj().Pkg().Path()
		}
	}
	return ""
}

func (in *Interp) callSSA(caller *frame, callpos token.Pos, fn *ssa.Function, args []value, env []value) value {
	fi := in.info(fn)
	if !fi.known {
		fi.known = true
		fi.intr = in.findIntrinsic(fn)
	}
	var g *goroutine
	if caller != nil {
		g = caller.g
	} else {
		g = in.sched.cur
	}
	fr := &frame{i: in, g: g, caller: caller, fn: fn, info: fi, callPos: callpos}
	if fi.intr != nil {
		if r := fi.intr(in, fr, args); r != value(notHandled) {
			return r
		}
	}
	if fn.Blocks == nil {
		if in.initing {
			return zero(fn.Signature.Results())
		}
		abort(abUnsupported, "external function "+fn.String())
	}
	if fn.Synthetic == "" || fn.Synthetic == "package initializer" {
		if pp := pkgPathOf(fn); pp != "" && !in.interpretable(pp) {
			if in.initing {
				return zero(fn.Signature.Results())
			}
			abort(abUnsupported, "function outside the interpretable set: "+fn.String())
		}
	}
	if in.run != nil {
		in.run.calls[fn]++
	}
	fr.env = make([]value, fi.n)
	fr.block = fn.Blocks[0]
	saved := in.curFrame
	in.curFrame = fr
	defer func() { in.curFrame = saved }()
	if len(fn.Locals) > 0 {
		fr.locals = make([]value, len(fn.Locals))
		for i, l := range fn.Locals {
			fr.locals[i] = zero(deref(l.Type()))
			fr.set(l, &fr.locals[i])
		}
	}
	for i, p := range fn.Params {
		fr.set(p, args[i])
	}
	for i, fv := range fn.FreeVars {
		fr.set(fv, env[i])
	}
	for fr.block != nil {
		fr.runFrame()
	}
	return fr.result
}

func (fr *frame) runFrame() {
	defer func() {
		if fr.block == nil {
			return // normal return
		}
		r := recover()
		if pa, ok := r.(pathAbort); ok {
			panic(pa) // engine-level abort: never visible to the target program
		}
		if re, ok := r.(runtime.Error); ok {
			// a bug in the engine, not in the target: surface it
			fmt.Fprintf(os.Stderr, "ENGINE-PANIC in %s: %v\n", fr.fn, re)
			buf := make([]byte, 1<<14)
			n := runtime.Stack(buf, false)
			os.Stderr.Write(buf[:n])
			panic(pathAbort{abUnsupported, "engine panic: " + re.Error()})
		}
		if s, ok := r.(string); ok {
			fmt.Fprintf(os.Stderr, "ENGINE-PANIC in %s: %s\n", fr.fn, s)
			panic(pathAbort{abUnsupported, "engine panic: " + s})
		}
		fr.panicking = true
		fr.panic = r
		fr.runDefers()
		fr.block = fr.fn.Recover
	}()

	in := fr.i
	for {
		b := fr.block
		instrs := b.Instrs
		// phis
		if _, ok := instrs[0].(*ssa.Phi); ok {
			predIndex := slices.Index(b.Preds, fr.prevBlock)
			fr.phitemps = fr.phitemps[:0]
			n := 0
			for _, instr := range instrs {
				phi, ok := instr.(*ssa.Phi)
				if !ok {
					break
				}
				fr.phitemps = append(fr.phitemps, fr.get(phi.Edges[predIndex]))
				n++
			}
			for i := 0; i < n; i++ {
				fr.set(instrs[i].(*ssa.Phi), fr.phitemps[i])
			}
			instrs = instrs[n:]
		}
		in.totalInstrs += int64(len(instrs))
		if in.run != nil {
			in.run.instrs += int64(len(instrs))
			if in.run.instrs > in.run.budget {
				abort(abUnwind, fmt.Sprintf("instruction budget %d exceeded in %s", in.run.budget, fr.fn))
			}
			if in.run.instrs>>20 != (in.run.instrs-int64(len(instrs)))>>20 && !in.deadline.IsZero() && time.Now().After(in.deadline.Add(30*time.Second)) {
				in.deadlineHit = true
				abort(abKill, "time limit of the harness exceeded inside one path")
			}
		}
		for _, instr := range instrs {
			in.curInstr, in.curFn = instr, fr.fn
			if !fr.visitInstr(instr) {
				return
			}
		}
	}
}

// decSites (GOSYM_DECSITES=1): profile of the source positions at which new decisions (forks) are made.
var decSites = func() map[string]int {
	if os.Getenv("GOSYM_DECSITES") != "" {
		return map[string]int{}
	}
	return nil
}()

func (in *Interp) noteDecisionSite() {
	if decSites == nil || in.curInstr == nil {
		return
	}
	pos := in.prog.Fset.Position(in.curInstr.Pos())
	decSites[fmt.Sprintf("%s %s:%d", in.curFn, pos.Filename, pos.Line)]++
}

func dumpDecSites() {
	if decSites == nil {
		return
	}
	for _, k := range sortedKeys(decSites) {
		fmt.Fprintf(os.Stderr, "DECSITE %6d %s\n", decSites[k], k)
	}
}

func (in *Interp) doRecover(caller *frame) value {
	if caller != nil && !caller.panicking &&
		caller.caller != nil && caller.caller.panicking {
		caller.caller.panicking = false
		p := caller.caller.panic
		caller.caller.panic = nil
		switch p := p.(type) {
		case targetPanic:
			return p.v
		default:
			panic(fmt.Sprintf("unexpected panic type %T in target call to recover()", p))
		}
	}
	return iface{}
}

// ---- memory ----

func (in *Interp) load(addr value) value {
	switch a := addr.(type) {
	case *value:
		if a == nil {
			rtPanic("invalid memory address or nil pointer dereference")
		}
		return copyVal(*a)
	case *symRef:
		// ite chain over scalar elements
		var r *Term
		for i := len(a.base) - 1; i >= 0; i-- {
			e, ok := scalarTerm(a.base[i])
			if !ok {
				abort(abUnsupported, "symbolic index into non-scalar elements")
			}
			if r == nil {
				r = e
			} else {
				r = mkIte(mkEq(a.idx, mkBV(64, uint64(i))), e, r)
			}
		}
		return in.fromTermLike(a.base[0], r)
	}
	panic(fmt.Sprintf("load from %T", addr))
}

func scalarTerm(v value) (*Term, bool) {
	switch v.(type) {
	case *Term, bool, int, int8, int16, int32, int64, uint, uint8, uint16, uint32, uint64, uintptr, float32, float64:
		return toTerm(v), true
	}
	return nil, false
}

// fromTermLike converts a term back into a value shaped like sample (host scalar if constant).
func (in *Interp) fromTermLike(sample value, t *Term) value {
	if !t.isConst() {
		return t
	}
	switch sample.(type) {
	case bool:
		return t.cval == 1
	case int:
		return int(t.cval)
	case int8:
		return int8(t.cval)
	case int16:
		return int16(t.cval)
	case int32:
		return int32(t.cval)
	case int64:
		return int64(t.cval)
	case uint:
		return uint(t.cval)
	case uint8:
		return uint8(t.cval)
	case uint16:
		return uint16(t.cval)
	case uint32:
		return uint32(t.cval)
	case uint64:
		return t.cval
	case uintptr:
		return uintptr(t.cval)
	}
	return t
}

func (in *Interp) store(addr value, v value) {
	switch a := addr.(type) {
	case *value:
		if a == nil {
			rtPanic("invalid memory address or nil pointer dereference")
		}
		storeInPlace(a, v)
	case *symRef:
		vt, ok := scalarTerm(v)
		if !ok {
			abort(abUnsupported, "symbolic-index store of non-scalar")
		}
		for i := range a.base {
			e, ok := scalarTerm(a.base[i])
			if !ok {
				abort(abUnsupported, "symbolic-index store into non-scalar elements")
			}
			a.base[i] = in.fromTermLike(a.base[i], mkIte(mkEq(a.idx, mkBV(64, uint64(i))), vt, e))
		}
	default:
		panic(fmt.Sprintf("store to %T", addr))
	}
}

// storeInPlace assigns v to *dst; aggregates are copied element-wise into the
// existing storage so that addresses of fields/elements taken earlier stay valid.
func storeInPlace(dst *value, v value) {
	switch x := v.(type) {
	case structure:
		if cur, ok := (*dst).(structure); ok && len(cur) == len(x) {
			for i := range x {
				storeInPlace(&cur[i], x[i])
			}
			return
		}
		*dst = copyVal(x)
	case array:
		if cur, ok := (*dst).(array); ok && len(cur) == len(x) {
			for i := range x {
				storeInPlace(&cur[i], x[i])
			}
			return
		}
		*dst = copyVal(x)
	default:
		*dst = v
	}
}

// symIndexAddr handles base[idx] with symbolic idx: bounds obligation (fork), then a symRef.
func (in *Interp) symIndexAddr(base []value, idx *Term, idxT types.Type) value {
	bt := idxT.Underlying().(*types.Basic)
	w := idx.sort.W
	var i64 *Term
	if w < 64 {
		if isUnsigned(bt) {
			i64 = mkZext(idx, 64-w)
		} else {
			i64 = mkSext(idx, 64-w)
		}
	} else {
		i64 = idx
	}
	inRange := mkBvCmp(opBvUlt, i64, mkBV(64, uint64(len(base))))
	if !in.branch(inRange) {
		rtPanic(fmt.Sprintf("index out of range [symbolic] with length %d", len(base)))
	}
	if len(base) == 1 {
		return &base[0]
	}
	if len(base) > 4096 {
		abort(abUnsupported, "symbolic index into a very large array")
	}
	// small arrays of non-scalars: case split
	if _, ok := scalarTerm(base[0]); !ok {
		i := in.enumerate(i64, "index", 64)
		return &base[i]
	}
	return &symRef{base: base, idx: i64}
}

func (in *Interp) slice(x, lo, hi, max value) value {
	var Len, Cap int
	switch x := x.(type) {
	case string, *symStr:
		Len = strLen(x)
		Cap = Len
	case []value:
		Len = len(x)
		Cap = cap(x)
	case *value:
		if x == nil {
			rtPanic("invalid memory address or nil pointer dereference")
		}
		a := (*x).(array)
		Len = len(a)
		Cap = cap(a)
	}
	l := int64(0)
	if lo != nil {
		l = in.concreteInt(lo, "slice low bound")
	}
	h := int64(Len)
	if hi != nil {
		h = in.concreteInt(hi, "slice high bound")
	}
	m := int64(Cap)
	if max != nil {
		m = in.concreteInt(max, "slice max bound")
	}
	if _, isStr := x.(string); isStr || isSymStr(x) {
		if l < 0 || h < l || h > int64(Len) {
			rtPanic(fmt.Sprintf("slice bounds out of range [%d:%d] with length %d", l, h, Len))
		}
	} else if l < 0 || h < l || m < h || m > int64(Cap) {
		rtPanic(fmt.Sprintf("slice bounds out of range [%d:%d:%d] with capacity %d", l, h, m, Cap))
	}
	switch x := x.(type) {
	case string:
		return x[l:h]
	case *symStr:
		return mkString(strBytes(x)[l:h])
	case []value:
		if x == nil {
			return x
		}
		return x[l:h:m]
	case *value:
		a := (*x).(array)
		return []value(a)[l:h:m]
	}
	panic(fmt.Sprintf("slice: unexpected X type: %T", x))
}

func isSymStr(v value) bool { _, ok := v.(*symStr); return ok }

func (in *Interp) rangeIter(x value, t types.Type) iter {
	switch x := x.(type) {
	case *omap:
		if x == nil {
			return &mapIter{m: &omap{}}
		}
		return &mapIter{m: x, ord: x.order(in.cfg.MapOrder)}
	case string, *symStr:
		return &stringIter{in: in, b: strBytes(x)}
	}
	panic(fmt.Sprintf("cannot range over %T", x))
}

func (in *Interp) typeAssert(instr *ssa.TypeAssert, itf iface) value {
	var v value
	err := ""
	if itf.t == nil {
		err = fmt.Sprintf("interface conversion: interface is nil, not %s", instr.AssertedType)
	} else if idst, ok := instr.AssertedType.Underlying().(*types.Interface); ok {
		v = itf
		if isRtypeType(itf.t) {
			// the reflect.Type model implements reflect.Type (and interface{})
			if idst.NumMethods() > 0 && !strings.HasSuffix(instr.AssertedType.String(), "reflect.Type") {
				err = fmt.Sprintf("interface conversion: *reflect.rtype is not %v", instr.AssertedType)
			}
		} else if meth, _ := types.MissingMethod(itf.t, idst, true); meth != nil {
			err = fmt.Sprintf("interface conversion: %v is not %v: missing method %s", itf.t, idst, meth.Name())
		}
	} else if types.Identical(itf.t, instr.AssertedType) {
		v = itf.v
	} else {
		err = fmt.Sprintf("interface conversion: interface is %s, not %s", itf.t, instr.AssertedType)
	}
	if err != "" {
		if !instr.CommaOk {
			panic(targetPanic{runtimeErr(err)})
		}
		return tuple{zero(instr.AssertedType), false}
	}
	if instr.CommaOk {
		return tuple{v, true}
	}
	return v
}

// ---- unary ----

func (fr *frame) unop(instr *ssa.UnOp, x value) value {
	in := fr.i
	switch instr.Op {
	case token.ARROW:
		v, ok := in.chanRecv(x.(*channel))
		if !ok {
			v = zero(instr.X.Type().Underlying().(*types.Chan).Elem())
		}
		if instr.CommaOk {
			return tuple{v, ok}
		}
		return v
	case token.MUL:
		return in.load(x)
	case token.NOT:
		return notV(x)
	case token.SUB:
		if t, ok := x.(*Term); ok {
			if t.sort.K == sFP {
				return mkFpUn(opFpNeg, t, t.sort, 0)
			}
			return mkBvNeg(t)
		}
		return cbinop(token.SUB, instr.X.Type(), zero(instr.X.Type()), x)
	case token.XOR:
		if t, ok := x.(*Term); ok {
			return mkBvNot(t)
		}
		bt := instr.X.Type().Underlying().(*types.Basic)
		return fromConst(bt, mkBvNot(toTerm(x)))
	}
	panic(fmt.Sprintf("invalid unary op %s %T", instr.Op, x))
}

// ---- builtins ----

func (in *Interp) callBuiltin(caller *frame, callpos token.Pos, fn *ssa.Builtin, args []value) value {
	switch fn.Name() {
	case "append":
		if len(args) == 1 {
			return args[0]
		}
		a0 := args[0].([]value)
		var src []value
		switch s := args[1].(type) {
		case string, *symStr:
			src = strBytes(s)
		case []value:
			src = s
		}
		if len(src) == 0 {
			return a0
		}
		if len(a0)+len(src) > cap(a0) {
			in.allocCheckConcrete(len(a0)+len(src), caller.posStr(callpos))
		}
		for _, e := range src {
			a0 = append(a0, copyVal(e))
		}
		return a0

	case "copy":
		dst := args[0].([]value)
		var src []value
		switch s := args[1].(type) {
		case string, *symStr:
			src = strBytes(s)
		case []value:
			src = s
		}
		n := len(dst)
		if len(src) < n {
			n = len(src)
		}
		// overlapping-safe
		tmp := make([]value, n)
		for i := 0; i < n; i++ {
			tmp[i] = copyVal(src[i])
		}
		copy(dst, tmp)
		return n

	case "close":
		in.chanClose(args[0].(*channel))
		return nil

	case "delete":
		args[0].(*omap).delete(in, args[1])
		return nil

	case "print", "println":
		return nil

	case "len":
		switch x := args[0].(type) {
		case string, *symStr:
			return strLen(x)
		case array:
			return len(x)
		case *value:
			return len((*x).(array))
		case []value:
			return len(x)
		case *omap:
			if x == nil {
				return 0
			}
			return x.len()
		case *channel:
			if x == nil {
				return 0
			}
			return len(x.buf)
		}
		panic(fmt.Sprintf("len: illegal operand: %T", args[0]))

	case "cap":
		switch x := args[0].(type) {
		case array:
			return cap(x)
		case *value:
			return cap((*x).(array))
		case []value:
			return cap(x)
		case *channel:
			if x == nil {
				return 0
			}
			return x.cap
		}
		panic(fmt.Sprintf("cap: illegal operand: %T", args[0]))

	case "min", "max":
		r := args[0]
		for _, a := range args[1:] {
			t := fn.Type().(*types.Signature).Params().At(0).Type()
			op := token.LSS
			if fn.Name() == "max" {
				op = token.GTR
			}
			c := in.binop(op, t, t, a, r)
			if cb, ok := c.(bool); ok {
				if cb {
					r = a
				}
			} else {
				r = mkIte(c.(*Term), toTerm(a), toTerm(r))
			}
		}
		return r

	case "panic":
		panic(targetPanic{args[0]})

	case "recover":
		return in.doRecover(caller)

	case "ssa:wrapnilchk":
		recv := args[0]
		if recv.(*value) == nil {
			rtPanic(fmt.Sprintf("value method %v.%v called using nil pointer", args[1], args[2]))
		}
		return recv

	case "ssa:deferstack":
		return &caller.defers
	}
	panic("unknown built-in: " + fn.Name())
}

// ---- decisions ----

// branchV decides a condition that is bool or *Term.
func (in *Interp) branchV(c value) bool {
	switch c := c.(type) {
	case bool:
		return c
	case *Term:
		return in.branch(c)
	}
	panic(fmt.Sprintf("branch on %T", c))
}

func (in *Interp) replayEntry(kind byte) *decision {
	if in.pos < len(in.trail) {
		d := &in.trail[in.pos]
		if d.kind != kind {
			panic(fmt.Sprintf("non-deterministic re-execution: trail kind %c vs %c at %d", d.kind, kind, in.pos))
		}
		in.pos++
		return d
	}
	return nil
}

// evalModel evaluates a boolean term under the cached model of the path
// condition: 1 true, 0 false, -1 unknown (no model, or uninterpreted functions).
func (in *Interp) evalModel(c *Term) (r int) {
	if in.run.model == nil {
		return -1
	}
	defer func() {
		if p := recover(); p != nil {
			if _, ok := p.(evalUF); ok {
				r = -1
				return
			}
			panic(p)
		}
	}()
	return int(in.run.model.eval(c, map[*Term]uint64{}))
}

func (in *Interp) evalModelBV(t *Term) (v uint64, ok bool) {
	if in.run.model == nil {
		return 0, false
	}
	defer func() {
		if p := recover(); p != nil {
			if _, isUF := p.(evalUF); isUF {
				ok = false
				return
			}
			panic(p)
		}
	}()
	return in.run.model.eval(t, map[*Term]uint64{}), true
}

// branch decides a symbolic condition, forking the path if both sides are feasible.
func (in *Interp) branch(c *Term) bool {
	if c.isConst() {
		return c.cval == 1
	}
	switch in.run.abs.cond(c) {
	case 1:
		in.res.AbsDecided++
		return true
	case -1:
		in.res.AbsDecided++
		return false
	}
	if in.cfg != nil && in.cfg.AllocPolicy {
		in.loopPolicy(c)
	}
	s := in.solver
	if d := in.replayEntry('b'); d != nil {
		taken := d.choice == 0
		if !d.asserted {
			s.push()
			if taken {
				s.assert(c)
			} else {
				s.assert(mkNot(c))
			}
			d.asserted = true
			in.run.model = d.altModel
			d.altModel = nil
		}
		if d.unknown {
			in.run.inconclusive = true
		}
		in.run.abs.learn(c, taken)
		return taken
	}
	in.run.decisions++
	in.noteDecisionSite()
	s.emit(c)
	d := decision{kind: 'b', asserted: true}
	mv := in.evalModel(c)
	rT, rF := resUnknown, resUnknown
	var mT, mF Model
	switch mv {
	case 1:
		rT, mT = resSat, in.run.model
		s.push()
		s.assert(mkNot(c))
		rF = s.check()
		if rF == resSat && !s.modelCostly {
			mF = s.model()
		}
		s.pop(1)
		s.push()
		s.assert(c)
	case 0:
		rF, mF = resSat, in.run.model
		s.push()
		s.assert(c)
		rT = s.check()
		if rT == resSat && !s.modelCostly {
			mT = s.model()
		}
	default:
		s.push()
		s.assert(mkNot(c))
		rF = s.check()
		if rF == resSat && !s.modelCostly {
			mF = s.model()
		}
		s.pop(1)
		s.push()
		s.assert(c)
		rT = resSat
		if rF != resUnsat {
			rT = s.check()
			if rT == resSat && !s.modelCostly {
				mT = s.model()
			}
		}
	}
	if rT == resUnknown || rF == resUnknown {
		d.unknown = true
		in.run.inconclusive = true
		in.res.UnknownBranches++
	}
	if debugImplied && (rT == resUnsat || rF == resUnsat) {
		fmt.Fprintf(os.Stderr, "IMPLIED %v/%v: %s\n", rT, rF, termString(c, 4))
	}
	switch {
	case rT != resUnsat && rF != resUnsat:
		d.choice, d.n = 0, 2
		d.altModel = mF
		in.run.model = mT
	case rT != resUnsat:
		d.choice, d.n = 0, 1
		in.run.model = mT
	case rF != resUnsat:
		s.pop(1)
		s.push()
		s.assert(mkNot(c))
		d.choice, d.n = 1, 2
		in.run.model = mF
	default:
		s.pop(1)
		abort(abInfeasible, "both branch sides infeasible")
	}
	in.trail = append(in.trail, d)
	in.pos++
	in.run.abs.learn(c, d.choice == 0)
	return d.choice == 0
}

// assume adds c to the path condition (one trail level); aborts the path if infeasible.
func (in *Interp) assume(c *Term, checkSat bool) {
	if c.isConst() {
		if c.cval == 0 {
			abort(abAssume, "assumption false")
		}
		return
	}
	switch in.run.abs.cond(c) {
	case 1:
		return
	case -1:
		abort(abAssume, "assumption contradicts the path (abstract domain)")
	}
	s := in.solver
	if d := in.replayEntry('a'); d != nil {
		if !d.asserted {
			s.push()
			s.assert(c)
			d.asserted = true
		}
		in.run.abs.learn(c, true)
		return
	}
	s.push()
	s.assert(c)
	switch in.evalModel(c) {
	case 1:
		// the cached model still satisfies the path condition
	default:
		in.run.model = nil
		if checkSat {
			r := s.check()
			if r == resUnsat {
				s.pop(1)
				abort(abAssume, "assumption infeasible")
			}
			if r == resUnknown {
				in.run.inconclusive = true
			} else if !s.modelCostly {
				in.run.model = s.model()
			}
		}
	}
	in.trail = append(in.trail, decision{kind: 'a', n: 1, asserted: true})
	in.pos++
	in.run.abs.learn(c, true)
}

// enumerate case-splits a symbolic BV term into its feasible concrete values.
func (in *Interp) enumerate(t *Term, what string, cap_ int) int64 {
	if t.isConst() {
		return signExt(t.cval, t.sort.W)
	}
	w := t.sort.W
	if av := in.run.abs.val(t); av.lo == av.hi && w <= 64 {
		return signExt(av.lo, w)
	}
	s := in.solver
	if d := in.replayEntry('e'); d != nil {
		v := d.vals[d.choice]
		if !d.asserted {
			s.push()
			s.assert(mkEq(t, mkBV(w, v)))
			d.asserted = true
			in.run.model = d.models[d.choice]
			d.models[d.choice] = nil
		}
		in.run.abs.learn(mkEq(t, mkBV(w, v)), true)
		return signExt(v, w)
	}
	in.run.decisions++
	if cap_ <= 0 {
		cap_ = in.cfg.EnumCap
	}
	var vals []uint64
	var models []Model
	s.emit(t)
	s.push()
	capped := false
	if v, ok := in.evalModelBV(t); ok {
		vals = append(vals, v)
		models = append(models, in.run.model)
		s.assert(mkNot(mkEq(t, mkBV(w, v))))
	}
	for {
		r := s.check()
		if r == resUnknown {
			in.run.inconclusive = true
			break
		}
		if r != resSat {
			break
		}
		if len(vals) >= cap_ {
			capped = true
			break
		}
		m := s.model()
		v := m.eval(t, map[*Term]uint64{})
		vals = append(vals, v)
		models = append(models, m)
		s.assert(mkNot(mkEq(t, mkBV(w, v))))
	}
	s.pop(1)
	if len(vals) == 0 {
		abort(abInfeasible, "enumerate: no feasible value for "+what)
	}
	if capped {
		in.res.CapHits++
		in.res.note("enumeration cap %d hit for %s", cap_, what)
	}
	// sort values (and their models) ascending for determinism
	idx := make([]int, len(vals))
	for i := range idx {
		idx[i] = i
	}
	slices.SortFunc(idx, func(a, b int) int {
		switch {
		case vals[a] < vals[b]:
			return -1
		case vals[a] > vals[b]:
			return 1
		}
		return 0
	})
	sv := make([]uint64, len(vals))
	sm := make([]Model, len(vals))
	for i, k := range idx {
		sv[i], sm[i] = vals[k], models[k]
	}
	s.push()
	s.assert(mkEq(t, mkBV(w, sv[0])))
	in.run.model = sm[0]
	sm[0] = nil
	in.trail = append(in.trail, decision{kind: 'e', n: len(sv), vals: sv, models: sm, asserted: true})
	in.pos++
	in.run.abs.learn(mkEq(t, mkBV(w, sv[0])), true)
	return signExt(sv[0], w)
}

// concreteInt returns a host integer for an index/size, case-splitting symbolic ones.
func (in *Interp) concreteInt(v value, what string) int64 {
	if t, ok := v.(*Term); ok {
		return in.enumerate(t, what, 0)
	}
	return asInt64(v)
}

// nextPath advances the decision trail to the next unexplored alternative.
// Returns false when the exploration is complete.
func (in *Interp) nextPath() bool {
	for len(in.trail) > 0 {
		d := &in.trail[len(in.trail)-1]
		if d.choice+1 < d.n {
			d.choice++
			d.asserted = false
			d.unknown = false
			in.solver.pop(in.solver.level - (len(in.trail) - 1))
			return true
		}
		in.trail = in.trail[:len(in.trail)-1]
	}
	in.solver.pop(in.solver.level)
	return false
}

// loopPolicy (C04, with the allocation policy): a decoder must not loop in proportion to a count field whose bytes have
// not arrived. When one branch site has been decided more than max(1024, 64*len(input)) times on a path and its
// condition compares against a symbolic value, the obligation "that value is < 2^31" is raised: a model with a larger
// value makes the native replay spin (kind hang); without such a model the loop is bounded and exploration goes on.
func (in *Interp) loopPolicy(c *Term) {
	if in.curInstr == nil || in.run == nil {
		return
	}
	if in.run.siteForks == nil {
		in.run.siteForks = map[ssa.Instruction]int{}
	}
	in.run.siteForks[in.curInstr]++
	if debugImplied && in.run.siteForks[in.curInstr]%200 == 0 {
		fmt.Fprintf(os.Stderr, "LOOPPOLICY count %d in %s inputLen=%d\n", in.run.siteForks[in.curInstr], in.curFn, in.run.inputLen)
	}
	lim := 1024
	if l := in.run.inputLen * 64; l > lim {
		lim = l
	}
	if in.run.siteForks[in.curInstr] != lim+1 {
		return
	}
	if debugImplied {
		fmt.Fprintf(os.Stderr, "LOOPPOLICY site reached %d decisions in %s: %s pos=%d trail=%d\n", lim+1, in.curFn, c.body(), in.pos, len(in.trail))
	}
	t := c
	for t.op == opNot {
		t = t.args[0]
	}
	var x *Term
	switch t.op {
	case opBvUlt, opBvUle, opBvSlt, opBvSle, opEq:
		for _, a := range t.args {
			if !a.isConst() && a.sort.K == sBV && a.sort.W >= 32 {
				x = a
			}
		}
	}
	if x == nil {
		return
	}
	bound := mkBvCmp(opBvUlt, x, mkBV(x.sort.W, 1<<31))
	label := fmt.Sprintf("a loop in %s runs for a count taken from the input (more than %d iterations, bound not tied to the bytes that arrived)", in.curFn, lim)
	nv, nk := len(in.res.Violations), len(in.res.KnownHits)
	in.obligation(bound, label, "hang")
	if len(in.res.Violations) != nv || len(in.res.KnownHits) != nk || in.res.seenViol["hang|"+label] || in.hasKnownHit("hang|"+label) {
		// reported: do not follow the loop any further on this path
		abort(abViolation, label)
	}
}
