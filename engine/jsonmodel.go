package main

// Minimal models of encoding/json streams and net/http.Header, enough to run the REST agent's handlers
// (register / fetch) under the interpreter:
//   - (*json.Decoder).Decode reads the whole (concrete) request body and fills the string / number / bool fields of
//     the target struct by their json tags;
//   - (*json.Encoder).Encode does not render text: it hands a deep copy of the value - taken at the moment of the call,
//     as serialisation would - to the method GosymEncoded(interface{}) of the writer, which harness writers implement
//     (natively the real encoder writes JSON text to the same writer and the harness decodes that);
//   - http.Header.Set/Add/Del are no-ops, http.Header.Get returns "".

import (
	"encoding/json"
	"go/types"
	"reflect"
	"strings"
)

type jsonDecModel struct{ r iface }
type jsonEncModel struct{ w iface }

func (in *Interp) readAllFrom(r iface) []byte {
	if r.t == nil {
		rtPanic("invalid memory address or nil pointer dereference")
	}
	m := in.methodByName(r.t, "Read")
	if m == nil {
		abort(abUnsupported, "json model: reader without Read")
	}
	var out []byte
	for i := 0; i < 1<<16; i++ {
		buf := make([]value, 512)
		for j := range buf {
			buf[j] = uint8(0)
		}
		res := in.call(nil, 0, m, []value{r.v, buf}).(tuple)
		n := int(asInt64(res[0]))
		for _, b := range buf[:n] {
			c, ok := b.(uint8)
			if !ok {
				abort(abUnsupported, "json model: symbolic request body")
			}
			out = append(out, c)
		}
		if e := res[1].(iface); e.t != nil || n == 0 {
			break
		}
	}
	return out
}

func (in *Interp) errorValue(msg string) value {
	errPkg := in.prog.ImportedPackage("errors")
	t := errPkg.Type("errorString").Type()
	cell := value(structure{msg})
	return iface{t: types.NewPointer(t), v: &cell}
}

func addJSONIntrinsics() {
	{
		t := intrinsicTable
		t["encoding/json.NewDecoder"] = func(in *Interp, fr *frame, args []value) value {
			return &jsonDecModel{r: args[0].(iface)}
		}
		t["(*encoding/json.Decoder).Decode"] = func(in *Interp, fr *frame, args []value) value {
			d := args[0].(*jsonDecModel)
			body := in.readAllFrom(d.r)
			var parsed map[string]interface{}
			if err := json.Unmarshal(body, &parsed); err != nil {
				return in.errorValue("json: " + err.Error())
			}
			target := args[1].(iface)
			pt, ok := target.t.(*types.Pointer)
			if !ok {
				abort(abUnsupported, "json model: Decode target is not a pointer")
			}
			st, ok := pt.Elem().Underlying().(*types.Struct)
			if !ok {
				abort(abUnsupported, "json model: Decode target is not a struct")
			}
			cell := target.v.(*value)
			s := (*cell).(structure)
			for i := 0; i < st.NumFields(); i++ {
				name := st.Field(i).Name()
				if tag := reflect.StructTag(st.Tag(i)).Get("json"); tag != "" {
					name = strings.Split(tag, ",")[0]
				}
				jv, present := parsed[name]
				if !present {
					continue
				}
				switch b := st.Field(i).Type().Underlying().(type) {
				case *types.Basic:
					switch {
					case b.Kind() == types.String:
						if sv, ok := jv.(string); ok {
							s[i] = sv
							continue
						}
					case b.Kind() == types.Bool:
						if bv, ok := jv.(bool); ok {
							s[i] = bv
							continue
						}
					}
				}
				abort(abUnsupported, "json model: field "+name+" of an unsupported kind")
			}
			return iface{}
		}
		t["encoding/json.NewEncoder"] = func(in *Interp, fr *frame, args []value) value {
			return &jsonEncModel{w: args[0].(iface)}
		}
		t["(*encoding/json.Encoder).Encode"] = func(in *Interp, fr *frame, args []value) value {
			e := args[0].(*jsonEncModel)
			if e.w.t == nil {
				rtPanic("invalid memory address or nil pointer dereference")
			}
			m := in.methodByName(e.w.t, "GosymEncoded")
			if m == nil {
				abort(abUnsupported, "json model: Encode to a writer without GosymEncoded")
			}
			in.call(nil, 0, m, []value{e.w.v, newCopier().copy(args[1])})
			return iface{}
		}
		// ---- sync.Pool: a LIFO free list per pool and path; Get calls New when the list is empty ----
		t["(*sync.Pool).Get"] = func(in *Interp, fr *frame, args []value) value {
			cell := args[0].(*value)
			if in.run.pools == nil {
				in.run.pools = map[*value][]value{}
			}
			if l := in.run.pools[cell]; len(l) > 0 {
				v := l[len(l)-1]
				in.run.pools[cell] = l[:len(l)-1]
				return v
			}
			s := (*cell).(structure)
			newFn := s[len(s)-1] // the exported field New is the last one
			if newFn == nil {
				return iface{}
			}
			if c, ok := newFn.(*closure); ok && c == nil {
				return iface{}
			}
			return in.call(fr, fr.callPos, newFn, nil)
		}
		t["(*sync.Pool).Put"] = func(in *Interp, fr *frame, args []value) value {
			cell := args[0].(*value)
			if in.run.pools == nil {
				in.run.pools = map[*value][]value{}
			}
			if x, ok := args[1].(iface); ok && x.t == nil {
				return nil
			}
			in.run.pools[cell] = append(in.run.pools[cell], args[1])
			return nil
		}
		noop := func(in *Interp, fr *frame, args []value) value { return nil }
		t["(net/http.Header).Set"] = noop
		t["(net/http.Header).Add"] = noop
		t["(net/http.Header).Del"] = noop
		t["(net/http.Header).Get"] = func(in *Interp, fr *frame, args []value) value { return "" }
	}
}
