package main

// gosym — bounded symbolic checking of the real dtn7-go code (see /verif/DESIGN.md).
//
//   gosym check   --property C01 [--tier quick|thorough] [--harness H] [-v]
//   gosym worker  --harnesses H1,H2 --tier T --out file.json      (internal)
//   gosym replay  <violation.json>
//   gosym list

import (
	"encoding/json"
	"flag"
	"fmt"
	"os"
	"os/exec"
	"path/filepath"
	"runtime"
	"runtime/pprof"
	"sort"
	"strconv"
	"strings"
	"sync"
	"time"
)

type CheckCfg struct {
	Property  string        `json:"property"`
	Harnesses []*HarnessCfg `json:"harnesses"`
}

type KnownFinding struct {
	ID       string `json:"id"`
	Property string `json:"property"`
	Status   string `json:"status"` // known | fixed
	Harness  string `json:"harness,omitempty"`
	What     string `json:"what"`
	Witness  string `json:"witness,omitempty"`
	Commit   string `json:"commit,omitempty"`
}

var knownFindings = map[string]*KnownFinding{}

func loadKnownFindings() {
	b, err := os.ReadFile(filepath.Join(verifDir, "known_findings.json"))
	if err != nil {
		return
	}
	var list []*KnownFinding
	if err := json.Unmarshal(b, &list); err != nil {
		fatalf("known_findings.json: %v", err)
	}
	for _, k := range list {
		knownFindings[k.ID] = k
	}
}

func loadChecks() map[string]*CheckCfg {
	files, _ := filepath.Glob(filepath.Join(verifDir, "checks", "*.json"))
	out := map[string]*CheckCfg{}
	for _, f := range files {
		b, err := os.ReadFile(f)
		if err != nil {
			fatalf("%v", err)
		}
		var c CheckCfg
		if err := json.Unmarshal(b, &c); err != nil {
			fatalf("%s: %v", f, err)
		}
		for _, h := range c.Harnesses {
			d := defaultCfg(h.Name)
			if h.EnumCap == 0 {
				h.EnumCap = d.EnumCap
			}
			if h.Budget == 0 {
				h.Budget = d.Budget
			}
			if h.TimeoutMs == 0 {
				h.TimeoutMs = d.TimeoutMs
			}
			if h.MaxVirtualNs == 0 {
				h.MaxVirtualNs = d.MaxVirtualNs
			}
			if h.Samples == 0 {
				h.Samples = d.Samples
			}
			if len(h.Tiers) == 0 {
				h.Tiers = []string{"quick", "thorough"}
			}
		}
		out[c.Property] = &c
	}
	return out
}

func inTier(h *HarnessCfg, tier string) bool {
	for _, t := range h.Tiers {
		if t == tier {
			return true
		}
	}
	return false
}

type WorkerOut struct {
	Results  []*HarnessResult `json:"results"`
	Stats    SolverStats      `json:"stats"`
	LoadSecs float64          `json:"load_secs"`
	InitSecs float64          `json:"init_secs"`
	Instrs   int64            `json:"instrs"`
	Error    string           `json:"error,omitempty"`
}

func main() {
	if len(os.Args) < 2 {
		fatalf("usage: gosym check|worker|replay|list ...")
	}
	switch os.Args[1] {
	case "check":
		os.Exit(cmdCheck(os.Args[2:]))
	case "worker":
		cmdWorker(os.Args[2:])
	case "replay":
		os.Exit(cmdReplay(os.Args[2:]))
	case "replaybin":
		// gosym replaybin <pkg> <h1,h2> <outdir>: builds the native replay test binary (debugging aid)
		bin, err := buildReplayBinary(os.Args[4], os.Args[2], strings.Split(os.Args[3], ","))
		if err != nil {
			fatalf("%v", err)
		}
		fmt.Println(bin)
	case "warm":
		// gosym warm: fills the go build cache with what the checks need (export data of the dependency closure
		// under the verif tag, and the faketime variant of the native replay binaries), so that the first check after
		// a fresh restore does not pay for compiling it. Best effort: a failure only makes the first check slower.
		enableHugePages()
		pkgSet := map[string]bool{}
		for _, c := range loadChecks() {
			for _, h := range c.Harnesses {
				pkgSet[h.Pkg] = true
			}
		}
		var pkgs []string
		for p := range pkgSet {
			pkgs = append(pkgs, p)
		}
		sort.Strings(pkgs)
		t0 := time.Now()
		loadProgramLean(pkgs)
		fmt.Printf("front end for %d packages: %.1fs\n", len(pkgs), time.Since(t0).Seconds())
		tmp, _ := os.MkdirTemp("", "gosym-warm-")
		var wg sync.WaitGroup
		sem := make(chan struct{}, 4)
		for _, p := range pkgs {
			wg.Add(1)
			go func(p string) {
				defer wg.Done()
				sem <- struct{}{}
				defer func() { <-sem }()
				if _, err := buildReplayBinary(tmp, p, nil); err != nil {
					fmt.Printf("warm: %s: %v\n", p, err)
				}
			}(p)
		}
		wg.Wait()
		os.RemoveAll(tmp)
		fmt.Printf("replay binaries: %.1fs in total\n", time.Since(t0).Seconds())
	case "ssa":
		p := loadProgram([]string{os.Args[2]})
		fn := p.pkgs[os.Args[2]].Func(os.Args[3])
		if fn == nil {
			fatalf("no such function")
		}
		fn.WriteTo(os.Stdout)
	case "list":
		for id, c := range loadChecks() {
			for _, h := range c.Harnesses {
				fmt.Println(id, h.Name, h.Pkg, h.Tiers)
			}
		}
	default:
		fatalf("unknown command %q", os.Args[1])
	}
}

func cmdWorker(args []string) {
	fs := flag.NewFlagSet("worker", flag.ExitOnError)
	prop := fs.String("property", "", "")
	hs := fs.String("harnesses", "", "")
	idx := fs.Int("index", -1, "index of the harness entry in the check configuration")
	tier := fs.String("tier", "quick", "")
	out := fs.String("out", "", "")
	verbose := fs.Int("v", 0, "")
	seed := fs.Int64("seed", 0, "")
	deadlineS := fs.Int("deadline", 600, "seconds per harness")
	prof := fs.String("cpuprofile", "", "")
	procs := fs.Int("procs", 0, "GOMAXPROCS after the front end has loaded the program (0 = unchanged)")
	fs.Parse(args)
	if *prof != "" {
		f, _ := os.Create(*prof)
		pprof.StartCPUProfile(f)
		defer pprof.StopCPUProfile()
	}
	loadKnownFindings()
	checks := loadChecks()
	c := checks[*prop]
	if c == nil {
		fatalf("no check configuration for %s", *prop)
	}
	want := map[string]bool{}
	for _, h := range strings.Split(*hs, ",") {
		want[h] = true
	}
	var sel []*HarnessCfg
	pkgSet := map[string]bool{}
	for i, h := range c.Harnesses {
		if *idx >= 0 && i != *idx {
			continue
		}
		if (*idx >= 0 || want[h.Name]) && inTier(h, *tier) {
			sel = append(sel, h)
			pkgSet[h.Pkg] = true
		}
	}
	var pkgs []string
	for p := range pkgSet {
		pkgs = append(pkgs, p)
	}
	sort.Strings(pkgs)
	wo := &WorkerOut{}
	p := loadProgram(pkgs)
	wo.LoadSecs = p.loadSecs
	if *procs > 0 {
		runtime.GOMAXPROCS(*procs)
	}
	in := newInterp(p, nil)
	in.verbose = *verbose
	t0 := time.Now()
	in.runInits(p)
	wo.InitSecs = time.Since(t0).Seconds()
	for _, h := range sel {
		sp := p.pkgs[h.Pkg]
		if sp == nil {
			fatalf("package %s not loaded", h.Pkg)
		}
		fn := sp.Func(h.Name)
		if fn == nil {
			fatalf("harness %s not found in %s", h.Name, h.Pkg)
		}
		if in.verbose > 0 {
			fmt.Fprintf(os.Stderr, "== %s\n", h.Name)
		}
		res := in.explore(h, fn, time.Now().Add(time.Duration(*deadlineS)*time.Second), *seed)
		wo.Results = append(wo.Results, res)
		if in.verbose > 0 {
			fmt.Fprintf(os.Stderr, "   paths=%d panic=%d assume=%d infeasible=%d unsupported=%d violations=%d known=%d instrs=%d %.1fs\n",
				res.Paths, res.PanicPaths, res.AssumeCut, res.Infeasible, res.Unsupported, len(res.Violations), len(res.KnownHits), res.Instrs, res.Wall)
		}
	}
	dumpDecSites()
	wo.Stats = in.stats
	wo.Instrs = in.totalInstrs
	in.solver.close()
	b, _ := json.MarshalIndent(wo, "", " ")
	if *out == "" {
		os.Stdout.Write(b)
	} else if err := os.WriteFile(*out, b, 0o644); err != nil {
		fatalf("%v", err)
	}
}

func cmdCheck(args []string) int {
	fs := flag.NewFlagSet("check", flag.ExitOnError)
	prop := fs.String("property", "", "property id")
	tier := fs.String("tier", "", "quick|thorough")
	only := fs.String("harness", "", "run only this harness")
	verbose := fs.Int("v", 0, "verbosity")
	jobs := fs.Int("j", 16, "parallel workers")
	noReplay := fs.Bool("no-replay", false, "skip native replay (debugging only; never registered)")
	fs.Parse(args)
	if *tier == "" {
		*tier = os.Getenv("VERIF_TIER")
	}
	if *tier == "" {
		*tier = "quick"
	}
	seed, _ := strconv.ParseInt(os.Getenv("VERIF_SEED"), 10, 64)
	t0 := time.Now()
	enableHugePages()
	loadKnownFindings()
	checks := loadChecks()
	c := checks[*prop]
	if c == nil {
		fatalf("no check configuration for property %q", *prop)
	}
	var sel []*HarnessCfg
	var selIdx []int
	for i, h := range c.Harnesses {
		if inTier(h, *tier) && (*only == "" || *only == h.Name) {
			sel = append(sel, h)
			selIdx = append(selIdx, i)
		}
	}
	if len(sel) == 0 {
		fatalf("no harness selected for %s/%s", *prop, *tier)
	}
	tmp, err := os.MkdirTemp("", "gosym-"+*prop+"-")
	if err != nil {
		fatalf("%v", err)
	}
	defer os.RemoveAll(tmp)
	deadline := 420
	if *tier == "thorough" {
		deadline = 2400
	}
	if d := os.Getenv("VERIF_DEADLINE"); d != "" {
		deadline, _ = strconv.Atoi(d)
	}
	// one worker process per harness, at most -j at a time
	outs := make([]*WorkerOut, len(sel))
	sem := make(chan struct{}, *jobs)
	var wg sync.WaitGroup
	self, _ := os.Executable()
	for i, h := range sel {
		wg.Add(1)
		go func(i int, h *HarnessCfg) {
			defer wg.Done()
			sem <- struct{}{}
			defer func() { <-sem }()
			of := filepath.Join(tmp, fmt.Sprintf("%s-%d.json", h.Name, i))
			cmd := exec.Command(self, "worker", "--property", *prop, "--index", strconv.Itoa(selIdx[i]), "--tier", *tier, "--out", of,
				"--v", strconv.Itoa(*verbose), "--seed", strconv.FormatInt(seed, 10), "--deadline", strconv.Itoa(deadline))
			cmd.Stderr = os.Stderr
			cmd.Env = goEnv()
			// the interpreter is sequential (baton passing between its goroutines) and the front end does not get
			// faster with more threads either (measured: GOMAXPROCS=2 5.2 s wall / 10 s CPU, 16: 5.3 s wall / 34 s CPU,
			// most of it scheduler and collector spinning), so every worker gets two threads
			cmd.Env = append(cmd.Env, "GOMAXPROCS=2")
			err := cmd.Run()
			wo := &WorkerOut{}
			if b, rerr := os.ReadFile(of); rerr == nil {
				json.Unmarshal(b, wo)
			} else if err != nil {
				wo.Error = fmt.Sprintf("worker for %s failed: %v", h.Name, err)
			}
			outs[i] = wo
		}(i, h)
	}
	wg.Wait()
	rep := newReport(*prop, *tier, seed, c, sel, outs)
	rep.exploreSecs = time.Since(t0).Seconds()
	if !*noReplay {
		rep.replayAll(tmp)
	}
	rep.wall = time.Since(t0).Seconds()
	return rep.finish()
}

// enableHugePages: performance only, best effort. In this sandbox (a Firecracker VM) a first touch of a 4 KiB page
// costs ~10 us alone and ~40 us when 16 workers allocate at once, which made the front ends and the collectors of
// the workers the dominant cost; with transparent huge pages the same memory is faulted in 2 MiB units (measured:
// 16 concurrent front ends 20 s -> 6 s each). Nothing depends on it: if the file is not writable the checks only
// run slower.
func enableHugePages() {
	const f = "/sys/kernel/mm/transparent_hugepage/enabled"
	if b, err := os.ReadFile(f); err == nil && !strings.Contains(string(b), "[always]") {
		_ = os.WriteFile(f, []byte("always"), 0o644)
	}
}
