//go:build verif

package utils

import (
	"bufio"
	"bytes"

	"github.com/dtn7/dtn7-go/pkg/cla/tcpclv4/internal/msgs"
	verif "github.com/dtn7/dtn7-go/pkg/zzverif"
)

// H04_NextSegment: the segment size is declared by the peer in SESS_INIT: an arbitrary 64-bit value must not make
// the sender panic, allocate beyond the policy, or emit a segment that makes no progress (no data, no END) while
// data remains.
func H04_NextSegment() {
	mtu := verif.U64("mtu")
	n := verif.Size("n", 1, 3)
	data := verif.Bytes("data", n)
	verif.InputLen(8 + n)
	t := &OutgoingTransfer{Id: 1, startFlag: true, dataStream: bufio.NewReader(bytes.NewReader(data))}
	dtm, err := t.NextSegment(mtu)
	if err != nil {
		verif.Reach("refused")
		return
	}
	verif.Assert(len(dtm.Data) > 0 || dtm.Flags&msgs.SegmentEnd != 0, "a segment makes progress: it carries data or ends the transfer")
	verif.Reach("end")
}

// H04_IncomingSegment: arbitrary segments into an incoming transfer.
func H04_IncomingSegment() {
	t := NewIncomingTransfer(verif.U64("id"))
	for i := 0; i < 2; i++ {
		dtm := msgs.NewDataTransmissionMessage(msgs.SegmentFlags(verif.U8(nm("flags", i))), verif.U64(nm("tid", i)), verif.Bytes(nm("data", i), 2))
		_, _ = t.NextSegment(dtm)
	}
	_, _ = t.ToBundle()
	verif.Reach("end")
}

func nm(s string, i int) string { return s + string(rune('0'+i)) }
