//go:build verif

package utils

import (
	"bytes"
	"io"
	"time"

	"github.com/dtn7/dtn7-go/pkg/bpv7"

	"github.com/dtn7/dtn7-go/pkg/cla/tcpclv4/internal/msgs"
	verif "github.com/dtn7/dtn7-go/pkg/zzverif"
)

// H11_Segments: for every (encoded length L, segment size m) pair in the bound - so that every case m | L occurs -
// the sender's segments are each <= m, concatenate to the data, carry START on exactly the first and END on
// exactly the last segment; each segment survives Marshal/Unmarshal; the receiver is finished exactly when the
// sender has emitted its last segment, holds exactly the data, and acknowledges L bytes.
func H11_Segments() {
	L := verif.Size("L", 1, verif.Param("maxlen", 6))
	m := verif.Size("m", 1, L+2)
	data := verif.Bytes("data", L)
	out, w := NewOutgoingTransfer(7)
	go func() {
		_, _ = w.Write(data)
		_ = w.(*io.PipeWriter).Close()
	}()
	in := NewIncomingTransfer(7)
	var got []byte
	segs := 0
	sawEnd := false
	var acked uint64
	for {
		dtm, err := out.NextSegment(uint64(m))
		if err != nil {
			verif.Assert(err == io.EOF, "the sender ends with EOF, not with another error")
			break
		}
		segs++
		verif.Assert(segs <= L+1, "the sender terminates")
		verif.Assert(!sawEnd, "no segment after the one that carried END")
		verif.Assert(len(dtm.Data) <= m, "no segment is larger than the negotiated size")
		verif.Assert((dtm.Flags&msgs.SegmentStart != 0) == (segs == 1), "START on exactly the first segment")
		// wire round trip of the segment
		var wire bytes.Buffer
		verif.Assert(dtm.Marshal(&wire) == nil, "segment marshals")
		var dtm2 msgs.DataTransmissionMessage
		verif.Assert(dtm2.Unmarshal(&wire) == nil, "segment unmarshals")
		verif.Assert(dtm2.Flags == dtm.Flags && dtm2.TransferId == dtm.TransferId && bytes.Equal(dtm2.Data, dtm.Data) && wire.Len() == 0, "segment survives the wire")
		if dtm.Flags&msgs.SegmentEnd != 0 {
			sawEnd = true
		}
		got = append(got, dtm.Data...)
		ack, aerr := in.NextSegment(&dtm2)
		verif.Assert(aerr == nil, "receiver accepts the segment")
		acked = ack.AckLen
		verif.Assert(in.IsFinished() == sawEnd, "receiver is finished exactly when END was sent")
	}
	verif.Assert(bytes.Equal(got, data), "concatenation of the segments is the data")
	verif.Assert(sawEnd, "the last segment carries END (success of Send means the receiver obtained the complete transfer)")
	verif.Assert(in.IsFinished(), "receiver has the complete transfer")
	verif.Assert(acked == uint64(L), "acknowledged length equals the data length")
	verif.Assert(bytes.Equal(in.buf.Bytes(), data), "receiver holds exactly the data")
	verif.Reach("end")
}

func encBundle(b bpv7.Bundle) []byte {
	var w bytes.Buffer
	_ = b.WriteBundle(&w)
	return append([]byte{}, w.Bytes()...)
}

// H11_Manager: two real TransferManagers back to back (handler goroutines, acknowledgement routing, the 10 s
// acknowledgement timeout in virtual time); the harness is the link between them and injects one fault: none, the k-th
// acknowledgement replaced by a refusal, every acknowledgement from the k-th on lost, every segment from the k-th on
// lost (session loss). For every segment size in the bound: Send returns success only if the receiver handed up exactly
// one bundle identical to the one sent; without a (reachable) fault it does return success; a refusal, a missing
// acknowledgement or a lost segment make it return an error; the receiver never hands up anything but the sent bundle,
// and at most once. With "bidir" both sides send at the same time.
func H11_Manager() {
	b, err := bpv7.Builder().Source("dtn://a/").Destination("dtn://b/").CreationTimestampEpoch().Lifetime("1h").
		BundleAgeBlock(0).PayloadBlock([]byte("hello")).Build()
	verif.Assume(err == nil)
	want := encBundle(b)
	L := len(want)
	// segment sizes: small ones, and the ones around the encoded length (so that m | L, m = L, m > L occur)
	sizes := []int{L - 1, L, L + 1}
	for m := 1; m <= verif.Param("maxm", 6); m++ {
		sizes = append(sizes, m)
	}
	for _, d := range []int{2, 3, 4, 5, 7} {
		if L%d == 0 && L/d > verif.Param("maxm", 6) {
			sizes = append(sizes, L/d) // divisors of the encoded length
		}
	}
	mi := verif.Choose("m", len(sizes))
	if shards := verif.Param("shards", 1); shards > 1 {
		verif.Assume(mi%shards == verif.Param("shard", 0))
	}
	m := sizes[mi]
	nseg := (L + m - 1) / m
	fault := verif.Choose("fault", 4)
	k := 0
	if fault != 0 {
		k = verif.Size("k", 1, verif.Param("kmax", 3))
	}
	bidir := fault == 0 && verif.Param("bidir", 0) == 1 && verif.Bool("bidir")
	// a second bundle sent on the same session in the same direction at the same time: the segments of the two
	// transfers interleave on the wire (each Send feeds the outgoing channel from its own goroutine)
	same := fault == 0 && !bidir && verif.Bool("same")

	aIn, aOut := make(chan msgs.Message, 4), make(chan msgs.Message, 4)
	bIn, bOut := make(chan msgs.Message, 4), make(chan msgs.Message, 4)
	A := NewTransferManager(aIn, aOut, uint64(m))
	B := NewTransferManager(bIn, bOut, uint64(m))
	stop := make(chan struct{})
	go func() { // a -> b: data segments (and, with bidir, a's acknowledgements)
		segs := 0
		// with two transfers in the same direction the link delivers: the first segment of the multi-segment transfer
		// that started first, then what the other transfer has sent, then the rest - per-transfer order is kept, and
		// the START of one transfer falls between two segments of the other
		var held []msgs.Message
		var heldID uint64
		holding, released := false, false
		var flush <-chan time.Time
		for {
			select {
			case <-stop:
				return
			case <-flush: // the other transfer did not show up: go on
				for _, h := range held {
					bIn <- h
				}
				held, holding, released, flush = nil, false, true, nil
			case msg := <-aOut:
				if seg, isSeg := msg.(*msgs.DataTransmissionMessage); isSeg {
					segs++
					if fault == 3 && segs >= k {
						continue // lost
					}
					if same && !released {
						switch {
						case !holding && seg.Flags&msgs.SegmentStart != 0 && seg.Flags&msgs.SegmentEnd == 0:
							holding, heldID, held = true, seg.TransferId, append(held, msg)
							flush = time.After(time.Second)
							continue
						case holding && seg.TransferId == heldID:
							held = append(held, msg)
							continue
						case holding:
							bIn <- held[0]
							bIn <- msg
							for _, h := range held[1:] {
								bIn <- h
							}
							held, holding, released, flush = nil, false, true, nil
							continue
						}
					}
				}
				bIn <- msg
			}
		}
	}()
	go func() { // b -> a: acknowledgements (and, with bidir, b's segments)
		acks := 0
		for {
			select {
			case <-stop:
				return
			case msg := <-bOut:
				if ack, isAck := msg.(*msgs.DataAcknowledgementMessage); isAck {
					acks++
					if fault == 1 && acks == k {
						aIn <- msgs.NewTransferRefusalMessage(msgs.RefusalUnknown, ack.TransferId)
						continue
					}
					if fault == 2 && acks >= k {
						continue // lost
					}
				}
				aIn <- msg
			}
		}
	}()
	var gotB, gotA [][]byte
	collect := func(tm *TransferManager, into *[][]byte) {
		bundles, errs := tm.Exchange()
		for {
			select {
			case <-stop:
				return
			case rb := <-bundles:
				*into = append(*into, encBundle(rb))
			case <-errs:
			}
		}
	}
	go collect(B, &gotB)
	go collect(A, &gotA)
	var errBack error
	backDone := make(chan struct{})
	var want2 []byte
	if bidir {
		b2, err2 := bpv7.Builder().Source("dtn://b/").Destination("dtn://a/").CreationTimestampEpoch().Lifetime("1h").
			BundleAgeBlock(0).PayloadBlock([]byte("HELLO!")).Build()
		verif.Assume(err2 == nil)
		want2 = encBundle(b2)
		go func() {
			errBack = B.Send(b2)
			close(backDone)
		}()
	}
	var errSame error
	sameDone := make(chan struct{})
	var want3 []byte
	if same {
		b3, err3 := bpv7.Builder().Source("dtn://a/").Destination("dtn://b/").CreationTimestampEpoch().Lifetime("1h").
			BundleAgeBlock(1).PayloadBlock([]byte("a second, somewhat longer bundle on the same session")).Build()
		verif.Assume(err3 == nil)
		want3 = encBundle(b3)
		go func() {
			errSame = A.Send(b3)
			close(sameDone)
		}()
	}
	sendErr := A.Send(b)
	if bidir {
		<-backDone
	}
	if same {
		<-sameDone
	}
	time.Sleep(time.Millisecond) // let the receiving side finish handing up
	close(stop)
	_ = A.Close()
	_ = B.Close()

	if same {
		verif.Assert(sendErr == nil && errSame == nil, "two transfers in the same direction at the same time both succeed")
		n1, n3 := 0, 0
		for _, g := range gotB {
			if bytes.Equal(g, want) {
				n1++
			} else if bytes.Equal(g, want3) {
				n3++
			} else {
				verif.Assert(false, "the receiver hands up nothing but the bundles that were sent")
			}
		}
		verif.Assert(n1 == 1 && n3 == 1, "each of the two bundles is handed up exactly once, identical to what was sent")
		verif.Reach("end")
		return
	}
	verif.Assert(len(gotB) <= 1, "the receiver hands up at most one bundle per transfer")
	if len(gotB) == 1 {
		verif.Assert(bytes.Equal(gotB[0], want), "the receiver hands up exactly the bundle that was sent")
	}
	if sendErr == nil {
		verif.Assert(len(gotB) == 1, "Send returns success only if the receiver obtained the complete transfer")
	}
	reachable := fault != 0 && k <= nseg
	switch {
	case !reachable:
		verif.Assert(sendErr == nil && len(gotB) == 1, "without a fault the transfer succeeds and is handed up once")
	case fault == 1:
		verif.Assert(sendErr != nil, "a refused transfer is reported as an error")
	case fault == 2:
		verif.Assert(sendErr != nil, "a transfer whose acknowledgements stop is reported as an error")
	case fault == 3:
		verif.Assert(sendErr != nil && len(gotB) == 0, "a transfer cut off by session loss is reported as an error and nothing is handed up")
	}
	if bidir {
		verif.Assert(errBack == nil && len(gotA) == 1 && bytes.Equal(gotA[0], want2), "the transfer in the other direction succeeds at the same time")
	} else {
		verif.Assert(len(gotA) == 0, "nothing is handed up on the sending side")
	}
	verif.Reach("end")
}
