//go:build verif

package utils

import (
	"bytes"
	"io"

	"github.com/dtn7/dtn7-go/pkg/cla/tcpclv4/internal/msgs"
	verif "github.com/dtn7/dtn7-go/pkg/zzverif"
)

// H11_Segments: for every (encoded length L, segment size m) pair in the bound - so that every case m | L occurs -
// the sender's segments are each <= m, concatenate to the data, carry START on exactly the first and END on
// exactly the last segment; each segment survives Marshal/Unmarshal; the receiver is finished exactly when the
// sender has emitted its last segment, holds exactly the data, and acknowledges L bytes.
func H11_Segments() {
	L := verif.Size("L", 1, verif.Param("maxlen", 6))
	m := verif.Size("m", 1, L+2)
	data := verif.Bytes("data", L)
	out, w := NewOutgoingTransfer(7)
	go func() {
		_, _ = w.Write(data)
		_ = w.(*io.PipeWriter).Close()
	}()
	in := NewIncomingTransfer(7)
	var got []byte
	segs := 0
	sawEnd := false
	var acked uint64
	for {
		dtm, err := out.NextSegment(uint64(m))
		if err != nil {
			verif.Assert(err == io.EOF, "the sender ends with EOF, not with another error")
			break
		}
		segs++
		verif.Assert(segs <= L+1, "the sender terminates")
		verif.Assert(!sawEnd, "no segment after the one that carried END")
		verif.Assert(len(dtm.Data) <= m, "no segment is larger than the negotiated size")
		verif.Assert((dtm.Flags&msgs.SegmentStart != 0) == (segs == 1), "START on exactly the first segment")
		// wire round trip of the segment
		var wire bytes.Buffer
		verif.Assert(dtm.Marshal(&wire) == nil, "segment marshals")
		var dtm2 msgs.DataTransmissionMessage
		verif.Assert(dtm2.Unmarshal(&wire) == nil, "segment unmarshals")
		verif.Assert(dtm2.Flags == dtm.Flags && dtm2.TransferId == dtm.TransferId && bytes.Equal(dtm2.Data, dtm.Data) && wire.Len() == 0, "segment survives the wire")
		if dtm.Flags&msgs.SegmentEnd != 0 {
			sawEnd = true
		}
		got = append(got, dtm.Data...)
		ack, aerr := in.NextSegment(&dtm2)
		verif.Assert(aerr == nil, "receiver accepts the segment")
		acked = ack.AckLen
		verif.Assert(in.IsFinished() == sawEnd, "receiver is finished exactly when END was sent")
	}
	verif.Assert(bytes.Equal(got, data), "concatenation of the segments is the data")
	verif.Assert(sawEnd, "the last segment carries END (success of Send means the receiver obtained the complete transfer)")
	verif.Assert(in.IsFinished(), "receiver has the complete transfer")
	verif.Assert(acked == uint64(L), "acknowledged length equals the data length")
	verif.Assert(bytes.Equal(in.buf.Bytes(), data), "receiver holds exactly the data")
	verif.Reach("end")
}
