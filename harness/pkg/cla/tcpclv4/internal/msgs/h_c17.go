//go:build verif

package msgs

import (
	"bytes"

	verif "github.com/dtn7/dtn7-go/pkg/zzverif"
)

func symMessage(pfx string, kind int) Message {
	switch kind {
	case 0:
		return NewContactHeader(ContactFlags(verif.U8(pfx + "cf")))
	case 1:
		n := verif.Size(pfx+"nl", 0, 3)
		return NewSessionInitMessage(verif.U16(pfx+"ka"), verif.U64(pfx+"smru"), verif.U64(pfx+"tmru"), verif.ASCII(pfx+"node", n))
	case 2:
		return NewSessionTerminationMessage(SessionTerminationFlags(verif.U8(pfx+"tf")), SessionTerminationCode(verif.U8(pfx+"tc")))
	case 3:
		n := verif.Size(pfx+"dl", 0, 3)
		return NewDataTransmissionMessage(SegmentFlags(verif.U8(pfx+"sf")), verif.U64(pfx+"tid"), verif.Bytes(pfx+"data", n))
	case 4:
		return NewDataAcknowledgementMessage(SegmentFlags(verif.U8(pfx+"af")), verif.U64(pfx+"atid"), verif.U64(pfx+"alen"))
	case 5:
		return NewTransferRefusalMessage(TransferRefusalCode(verif.U8(pfx+"rc")), verif.U64(pfx+"rtid"))
	case 6:
		return NewKeepaliveMessage()
	default:
		return NewMessageRejectionMessage(MessageRejectionReason(verif.U8(pfx+"jr")), verif.U8(pfx+"jh"))
	}
}

func msgEqual(a, b Message) bool {
	switch x := a.(type) {
	case *ContactHeader:
		y, ok := b.(*ContactHeader)
		return ok && x.Flags == y.Flags
	case *SessionInitMessage:
		y, ok := b.(*SessionInitMessage)
		return ok && verif.And(x.KeepaliveInterval == y.KeepaliveInterval, x.SegmentMru == y.SegmentMru, x.TransferMru == y.TransferMru, x.NodeId == y.NodeId)
	case *SessionTerminationMessage:
		y, ok := b.(*SessionTerminationMessage)
		return ok && verif.And(x.Flags == y.Flags, x.ReasonCode == y.ReasonCode)
	case *DataTransmissionMessage:
		y, ok := b.(*DataTransmissionMessage)
		return ok && verif.And(x.Flags == y.Flags, x.TransferId == y.TransferId, bytes.Equal(x.Data, y.Data))
	case *DataAcknowledgementMessage:
		y, ok := b.(*DataAcknowledgementMessage)
		return ok && verif.And(x.Flags == y.Flags, x.TransferId == y.TransferId, x.AckLen == y.AckLen)
	case *TransferRefusalMessage:
		y, ok := b.(*TransferRefusalMessage)
		return ok && verif.And(x.ReasonCode == y.ReasonCode, x.TransferId == y.TransferId)
	case *KeepaliveMessage:
		_, ok := b.(*KeepaliveMessage)
		return ok
	case *MessageRejectionMessage:
		y, ok := b.(*MessageRejectionMessage)
		return ok && verif.And(x.ReasonCode == y.ReasonCode, x.MessageHeader == y.MessageHeader)
	}
	return false
}

// refCodeValid: the enumerated reason codes of draft-ietf-dtn-tcpclv4 as implemented by the three code types.
func refCodeValid(kind int, m Message) bool {
	switch x := m.(type) {
	case *SessionTerminationMessage:
		return x.ReasonCode <= 5
	case *TransferRefusalMessage:
		return x.ReasonCode <= 6
	case *MessageRejectionMessage:
		return verif.And(x.ReasonCode >= 1, x.ReasonCode <= 3)
	}
	return true
}

// H17_Messages: every value of every message type (all integer fields fully symbolic) -> Marshal -> symbolic
// garbage appended -> ReadMessage from the same stream -> equal value, stream holds exactly the garbage. The
// encoder refuses exactly the values with an invalid reason code; two messages back to back stay aligned.
func H17_Messages() {
	k1 := verif.Choose("k1", 8)
	m1 := symMessage("a_", k1)
	var w bytes.Buffer
	err := m1.Marshal(&w)
	if err != nil {
		verif.Reach("refused")
		verif.Assert(!refCodeValid(k1, m1), "the encoder refuses only values with an invalid reason code")
		return
	}
	if !refCodeValid(k1, m1) {
		// the encoder let an invalid reason code through: the decoder must reject it
		_, derr := ReadMessage(&w)
		verif.Assert(derr != nil, "a message with an invalid reason code is rejected by the decoder")
		verif.Reach("invalid-code")
		return
	}
	l1 := w.Len()
	two := verif.Bool("two")
	var m2 Message
	if two {
		k2 := verif.Choose("k2", 8)
		m2 = symMessage("b_", k2)
		verif.Assume(refCodeValid(k2, m2))
		verif.Assume(m2.Marshal(&w) == nil)
	}
	garbage := verif.Bytes("garbage", 2)
	w.Write(garbage)
	total := w.Len()
	r1, rerr := ReadMessage(&w)
	verif.Assert(rerr == nil, "own encoding is accepted")
	verif.Assert(msgEqual(m1, r1), "message decodes to an equal value")
	verif.Assert(total-w.Len() == l1, "decoder consumes exactly the bytes the encoder produced")
	if two {
		r2, rerr2 := ReadMessage(&w)
		verif.Assert(rerr2 == nil && msgEqual(m2, r2), "second message on the stream decodes to an equal value")
	}
	verif.Assert(bytes.Equal(w.Bytes(), garbage), "stream stays aligned: exactly the garbage remains")
	verif.Reach("end")
}

// H17_Codes: raw encodings with arbitrary bytes in the code / magic / version / type positions: accepted exactly for
// the enumerated values.
func H17_Codes() {
	switch verif.Choose("which", 5) {
	case 0: // SESS_TERM: type, flags, reason
		in := []byte{SESS_TERM, verif.U8("f"), verif.U8("c")}
		var m SessionTerminationMessage
		err := m.Unmarshal(bytes.NewReader(in))
		verif.Assert((err == nil) == (in[2] <= 5), "SESS_TERM: accepted exactly for the six reason codes")
	case 1: // XFER_REFUSE: type, reason, 8 byte id
		in := append([]byte{XFER_REFUSE, verif.U8("c")}, verif.Bytes("id", 8)...)
		var m TransferRefusalMessage
		err := m.Unmarshal(bytes.NewReader(in))
		verif.Assert((err == nil) == (in[1] <= 6), "XFER_REFUSE: accepted exactly for the seven reason codes")
	case 2: // MSG_REJECT: type, reason, header
		in := []byte{MSG_REJECT, verif.U8("c"), verif.U8("h")}
		var m MessageRejectionMessage
		err := m.Unmarshal(bytes.NewReader(in))
		verif.Assert((err == nil) == (in[1] >= 1 && in[1] <= 3), "MSG_REJECT: accepted exactly for the three reason codes")
	case 3: // contact header: 6 arbitrary bytes
		in := verif.Bytes("hdr", 6)
		var m ContactHeader
		err := m.Unmarshal(bytes.NewReader(in))
		magic := verif.And(in[0] == 'd', in[1] == 't', in[2] == 'n', in[3] == '!', in[4] == 4)
		verif.Assert((err == nil) == magic, "contact header: accepted exactly with magic dtn! and version 4")
	case 4: // type dispatch over all 256 type bytes
		t := verif.U8("type")
		in := append([]byte{t}, make([]byte, 40)...)
		_, err := ReadMessage(bytes.NewReader(in))
		known := verif.Or(verif.And(t >= 1, t <= 7), t == 0x64)
		verif.Assert(verif.Implies(err == nil, known), "ReadMessage: only registered type codes are accepted")
	}
	verif.Reach("end")
}
