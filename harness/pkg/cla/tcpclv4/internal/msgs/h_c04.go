//go:build verif

package msgs

import (
	"bytes"

	verif "github.com/dtn7/dtn7-go/pkg/zzverif"
)

// H04_ReadMessage: N fully symbolic bytes into the TCPCLv4 message reader (all eight message types; every length
// field is therefore an arbitrary value of its wire width; shorter inputs are the truncations).
func H04_ReadMessage() {
	n := verif.Size("n", 0, verif.Param("maxn", 24))
	in := verif.Bytes("in", n)
	verif.InputLen(n)
	verif.Observe("in", in)
	_, _ = ReadMessage(bytes.NewReader(in))
	verif.Reach("end")
}
