//go:build verif

package mtcp

import (
	"bytes"
	"errors"
	"net"
	"time"

	"github.com/dtn7/dtn7-go/pkg/bpv7"
	"github.com/dtn7/dtn7-go/pkg/cla"
	verif "github.com/dtn7/dtn7-go/pkg/zzverif"
)

// fakeConn is a byte log with an optional failing write.
type fakeConn struct {
	rd      *bytes.Reader
	log     bytes.Buffer
	writes  int
	failAt  int // the failAt-th Write fails (0 = never)
	closed  bool
	partial bool
}

func (c *fakeConn) Read(p []byte) (int, error) { return c.rd.Read(p) }
func (c *fakeConn) Write(p []byte) (int, error) {
	c.writes++
	if c.failAt != 0 && c.writes >= c.failAt {
		return 0, errors.New("broken pipe")
	}
	return c.log.Write(p)
}
func (c *fakeConn) Close() error                       { c.closed = true; return nil }
func (c *fakeConn) LocalAddr() net.Addr                { return nil }
func (c *fakeConn) RemoteAddr() net.Addr               { return nil }
func (c *fakeConn) SetDeadline(t time.Time) error      { return nil }
func (c *fakeConn) SetReadDeadline(t time.Time) error  { return nil }
func (c *fakeConn) SetWriteDeadline(t time.Time) error { return nil }

func mkBundle(i int) bpv7.Bundle {
	maxn := 2
	if i == 0 {
		// the first bundle's payload length ranges further (check parameter), so that the frame's length header crosses
		// its 1-, 2- and 3-byte encodings
		maxn = verif.Param("maxn0", 2)
	}
	b, err := bpv7.Builder().Source("dtn://src/").Destination("dtn://dst/").CreationTimestampEpoch().Lifetime("1h").
		BundleAgeBlock(uint64(i)).PayloadBlock(verif.Bytes(nm("pl", i), verif.Size(nm("n", i), 0, maxn))).Build()
	if err != nil {
		verif.Assert(false, "bundle builds")
	}
	return b
}

func nm(s string, i int) string { return s + string(rune('0'+i)) }

func enc(b bpv7.Bundle) []byte {
	var w bytes.Buffer
	_ = b.WriteBundle(&w)
	return append([]byte{}, w.Bytes()...)
}

// H12_Mtcp: 1..2 bundles sent over one connection with keep-alive frames at arbitrary boundaries arrive at the server
// as the same bundles in the same order, keep-alives invisible; with a failing write, Send returns an error and the
// peer is reported as gone.
func H12_Mtcp() {
	k := verif.Size("k", 1, verif.Param("maxk", 2))
	failAt := 0
	if verif.Bool("fail") {
		failAt = verif.Size("failat", 1, verif.Param("maxfail", 4))
	}
	conn := &fakeConn{failAt: failAt}
	client := &MTCPClient{conn: conn, peer: bpv7.DtnNone(), reportChan: make(chan cla.ConvergenceStatus, 16)}
	var sent [][]byte
	failed := false
	for i := 0; i < k; i++ {
		if verif.Bool(nm("ka", i)) {
			_, _ = conn.Write([]byte{0x40}) // keep-alive: empty byte string
			conn.writes--                   // (not counted as a client write)
		}
		b := mkBundle(i)
		err := client.Send(b)
		if err != nil {
			failed = true
			verif.Assert(len(client.reportChan) > 0, "a failed send reports the peer as gone")
			st := <-client.reportChan
			verif.Assert(st.MessageType == cla.PeerDisappeared, "the report is PeerDisappeared")
			break
		}
		sent = append(sent, enc(b))
	}
	verif.Assert(verif.Implies(failAt != 0 && failAt <= 2*k, failed), "a send on a broken connection returns an error")
	if failed {
		verif.Reach("failed")
	}
	// server side: whatever reached the wire
	conn.rd = bytes.NewReader(conn.log.Bytes())
	srv := &MTCPServer{reportChan: make(chan cla.ConvergenceStatus, 16), endpointID: bpv7.DtnNone()}
	srv.handleSender(conn)
	var got [][]byte
	for len(srv.reportChan) > 0 {
		st := <-srv.reportChan
		verif.Assert(st.MessageType == cla.ReceivedBundle, "server reports only received bundles")
		got = append(got, enc(*st.Message.(cla.ConvergenceReceivedBundle).Bundle))
	}
	verif.Assert(len(got) >= len(sent), "every bundle whose Send succeeded arrives")
	for i := range sent {
		verif.Assert(bytes.Equal(got[i], sent[i]), "bundles arrive unchanged and in order")
	}
	verif.Reach("end")
}

// slowConn is a fakeConn on a slow link: every Write takes `delay` of (virtual) time after its bytes went out.
type slowConn struct {
	fakeConn
	delay time.Duration
}

func (c *slowConn) Write(p []byte) (int, error) {
	n, err := c.fakeConn.Write(p)
	time.Sleep(c.delay)
	return n, err
}

func bigBundle(i int, size int) bpv7.Bundle {
	pl := make([]byte, size)
	for j := range pl {
		pl[j] = byte(i + j)
	}
	b, err := bpv7.Builder().Source("dtn://src/").Destination("dtn://dst/").CreationTimestampEpoch().Lifetime("1h").
		BundleAgeBlock(uint64(i)).PayloadBlock(pl).Build()
	if err != nil {
		verif.Assert(false, "bundle builds")
	}
	return b
}

// H12_MtcpSlowLink: the real client with its keep-alive goroutine (5 s ticker, virtual time) on a slow link: small
// bundles and bundles larger than the 4 KiB write buffer (whose first part goes out before the frame is complete);
// one send during which keep-alive ticks fall, or two sends started at the same moment from two goroutines. What
// reaches the wire parses at the server as exactly the bundles whose Send succeeded, unchanged, each once, with the
// keep-alive frames invisible; a frame is never interleaved with another frame.
func H12_MtcpSlowLink() {
	sizes := []int{10, 5000}
	// 1 s or 3 s per write: below the keep-alive period, so that the keep-alive goroutine does not own the link for ever
	conn := &slowConn{delay: time.Duration(verif.Choose("delay", 2)*2+1) * time.Second}
	client := &MTCPClient{conn: conn, peer: bpv7.DtnNone(), reportChan: make(chan cla.ConvergenceStatus, 64),
		stopSyn: make(chan struct{}), stopAck: make(chan struct{})}
	go client.handler()
	time.Sleep(time.Millisecond)
	two := verif.Bool("two")
	bs := []bpv7.Bundle{bigBundle(1, sizes[verif.Choose("size0", 2)])}
	if two {
		bs = append(bs, bigBundle(2, sizes[verif.Choose("size1", 2)]))
	}
	errs := make([]error, len(bs))
	done := make(chan int, len(bs))
	for i := range bs {
		go func(i int) { errs[i] = client.Send(bs[i]); done <- i }(i)
	}
	for range bs {
		<-done
	}
	close(client.stopSyn)
	<-client.stopAck
	for i := range bs {
		verif.Assert(errs[i] == nil, "sends on a working connection succeed")
	}
	conn.rd = bytes.NewReader(conn.log.Bytes())
	srv := &MTCPServer{reportChan: make(chan cla.ConvergenceStatus, 16), endpointID: bpv7.DtnNone()}
	srv.handleSender(&conn.fakeConn)
	var got [][]byte
	for len(srv.reportChan) > 0 {
		st := <-srv.reportChan
		verif.Assert(st.MessageType == cla.ReceivedBundle, "server reports only received bundles")
		got = append(got, enc(*st.Message.(cla.ConvergenceReceivedBundle).Bundle))
	}
	verif.Assert(len(got) == len(bs), "every bundle whose Send succeeded arrives, each once")
	for i := range bs {
		n := 0
		for _, g := range got {
			if bytes.Equal(g, enc(bs[i])) {
				n++
			}
		}
		verif.Assert(n == 1, "bundles arrive unchanged (keep-alive frames and other sends never cut into a frame)")
	}
	verif.Reach("end")
}
