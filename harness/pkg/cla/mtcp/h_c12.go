//go:build verif

package mtcp

import (
	"bytes"
	"errors"
	"net"
	"time"

	"github.com/dtn7/dtn7-go/pkg/bpv7"
	"github.com/dtn7/dtn7-go/pkg/cla"
	verif "github.com/dtn7/dtn7-go/pkg/zzverif"
)

// fakeConn is a byte log with an optional failing write.
type fakeConn struct {
	rd      *bytes.Reader
	log     bytes.Buffer
	writes  int
	failAt  int // the failAt-th Write fails (0 = never)
	closed  bool
	partial bool
}

func (c *fakeConn) Read(p []byte) (int, error) { return c.rd.Read(p) }
func (c *fakeConn) Write(p []byte) (int, error) {
	c.writes++
	if c.failAt != 0 && c.writes >= c.failAt {
		return 0, errors.New("broken pipe")
	}
	return c.log.Write(p)
}
func (c *fakeConn) Close() error                       { c.closed = true; return nil }
func (c *fakeConn) LocalAddr() net.Addr                { return nil }
func (c *fakeConn) RemoteAddr() net.Addr               { return nil }
func (c *fakeConn) SetDeadline(t time.Time) error      { return nil }
func (c *fakeConn) SetReadDeadline(t time.Time) error  { return nil }
func (c *fakeConn) SetWriteDeadline(t time.Time) error { return nil }

func mkBundle(i int) bpv7.Bundle {
	b, err := bpv7.Builder().Source("dtn://src/").Destination("dtn://dst/").CreationTimestampEpoch().Lifetime("1h").
		BundleAgeBlock(uint64(i)).PayloadBlock(verif.Bytes(nm("pl", i), verif.Size(nm("n", i), 0, 2))).Build()
	if err != nil {
		verif.Assert(false, "bundle builds")
	}
	return b
}

func nm(s string, i int) string { return s + string(rune('0'+i)) }

func enc(b bpv7.Bundle) []byte {
	var w bytes.Buffer
	_ = b.WriteBundle(&w)
	return append([]byte{}, w.Bytes()...)
}

// H12_Mtcp: 1..2 bundles sent over one connection with keep-alive frames at arbitrary boundaries arrive at the server
// as the same bundles in the same order, keep-alives invisible; with a failing write, Send returns an error and the
// peer is reported as gone.
func H12_Mtcp() {
	k := verif.Size("k", 1, 2)
	failAt := 0
	if verif.Bool("fail") {
		failAt = verif.Size("failat", 1, 4)
	}
	conn := &fakeConn{failAt: failAt}
	client := &MTCPClient{conn: conn, peer: bpv7.DtnNone(), reportChan: make(chan cla.ConvergenceStatus, 16)}
	var sent [][]byte
	failed := false
	for i := 0; i < k; i++ {
		if verif.Bool(nm("ka", i)) {
			_, _ = conn.Write([]byte{0x40}) // keep-alive: empty byte string
			conn.writes--                   // (not counted as a client write)
		}
		b := mkBundle(i)
		err := client.Send(b)
		if err != nil {
			failed = true
			verif.Assert(len(client.reportChan) > 0, "a failed send reports the peer as gone")
			st := <-client.reportChan
			verif.Assert(st.MessageType == cla.PeerDisappeared, "the report is PeerDisappeared")
			break
		}
		sent = append(sent, enc(b))
	}
	verif.Assert(verif.Implies(failAt != 0 && failAt <= 2, failed), "a send on a broken connection returns an error")
	if failed {
		verif.Reach("failed")
	}
	// server side: whatever reached the wire
	conn.rd = bytes.NewReader(conn.log.Bytes())
	srv := &MTCPServer{reportChan: make(chan cla.ConvergenceStatus, 16), endpointID: bpv7.DtnNone()}
	srv.handleSender(conn)
	var got [][]byte
	for len(srv.reportChan) > 0 {
		st := <-srv.reportChan
		verif.Assert(st.MessageType == cla.ReceivedBundle, "server reports only received bundles")
		got = append(got, enc(*st.Message.(cla.ConvergenceReceivedBundle).Bundle))
	}
	verif.Assert(len(got) >= len(sent), "every bundle whose Send succeeded arrives")
	for i := range sent {
		verif.Assert(bytes.Equal(got[i], sent[i]), "bundles arrive unchanged and in order")
	}
	verif.Assert(conn.closed, "server closes the connection when the stream ends")
	verif.Reach("end")
}
