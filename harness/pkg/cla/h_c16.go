//go:build verif

package cla

import (
	"errors"
	"time"

	"github.com/dtn7/dtn7-go/pkg/bpv7"
	verif "github.com/dtn7/dtn7-go/pkg/zzverif"
)

// scriptAdapter is a convergence adapter whose Start outcomes are chosen by the harness.
type scriptAdapter struct {
	addr      string
	permanent bool
	next      int // outcome of the next Start: 0 success, 1 fail-retry, 2 fail-no-retry
	starts    int
	okStarts  int
	closes    int
	ch        chan ConvergenceStatus
}

func (a *scriptAdapter) Start() (error, bool) {
	a.starts++
	switch a.next {
	case 0:
		a.okStarts++
		return nil, false
	case 1:
		return errors.New("start failed"), true
	default:
		return errors.New("start failed for good"), false
	}
}
func (a *scriptAdapter) Close() error                      { a.closes++; return nil }
func (a *scriptAdapter) Channel() chan ConvergenceStatus   { return a.ch }
func (a *scriptAdapter) Address() string                   { return a.addr }
func (a *scriptAdapter) IsPermanent() bool                 { return a.permanent }
func (a *scriptAdapter) Send(bpv7.Bundle) error            { return nil }
func (a *scriptAdapter) GetPeerEndpointID() bpv7.EndpointID { return bpv7.DtnNone() }
func (a *scriptAdapter) String() string                    { return a.addr }

func nm(s string, i int) string { return s + string(rune('0'+i)) }

// H16_Elem: sequences of start attempts (succeeds / fails-retry / fails-no-retry) and stops on one element, for
// permanent and non-permanent adapters and every initial retry budget 0..3: the element is active exactly while
// its most recent start succeeded and it has not been stopped since; a non-permanent adapter is given up exactly
// when its budget is used up, a permanent one never; stopping closes a started adapter exactly once; no panic.
func H16_Elem() {
	ttl0 := int32(verif.Size("ttl", 0, 3))
	a := &scriptAdapter{addr: "mock://1", permanent: verif.Bool("permanent"), ch: make(chan ConvergenceStatus)}
	ce := newConvergenceElement(a, make(chan ConvergenceStatus, 8), ttl0)
	active := false
	budget := int(ttl0)
	steps := verif.Size("steps", 1, verif.Param("maxsteps", 5))
	for i := 0; i < steps; i++ {
		op := verif.Choose(nm("op", i), 4) // 0..2 activate with that outcome, 3 deactivate
		if op == 3 {
			wasActive := active
			closesBefore := a.closes
			ce.deactivate(ttl0)
			if wasActive {
				verif.Assert(a.closes == closesBefore+1, "stopping a started adapter closes it exactly once")
				budget = int(ttl0)
			} else {
				verif.Assert(a.closes == closesBefore, "an adapter that is not started is not closed")
			}
			active = false
			verif.Assert(!ce.isActive(), "a stopped adapter is not active")
			continue
		}
		a.next = op
		startsBefore := a.starts
		ok, retry := ce.activate()
		switch {
		case active:
			verif.Assert(a.starts == startsBefore, "an active adapter is not started again")
		case budget == 0 && !a.permanent:
			verif.Assert(!ok && !retry, "a non-permanent adapter whose budget is used up is given up")
			verif.Assert(a.starts == startsBefore, "and it is not started any more")
		default:
			verif.Assert(a.starts == startsBefore+1, "an inactive adapter with budget (or a permanent one) is started")
			switch op {
			case 0:
				verif.Assert(ok, "a successful start is reported")
				active = true
			case 1:
				verif.Assert(!ok && retry, "a retryable failure asks for a retry")
				if budget > 0 {
					budget--
				}
			case 2:
				verif.Assert(!ok && !retry, "a final failure asks for no retry")
				budget = 0
			}
		}
		verif.Assert(ce.isActive() == active, "active exactly while the most recent start succeeded and it was not stopped since")
	}
	verif.Reach("end")
}

// H16_Manager: the real Manager with its handler goroutine and retry ticker (virtual time): register (also twice),
// retry ticks, unregister, a peer loss reported by the started adapter, close. The oracle is the adapter's own event log: it is "started" after a successful
// Start until the next Close.
func H16_Manager() {
	m := NewManager()
	m.queueTtl = int32(verif.Size("qttl", 0, 2))
	a := &scriptAdapter{addr: "mock://a", permanent: verif.Bool("permanent"), ch: make(chan ConvergenceStatus, 4)}
	out := m.Channel()
	go func() { // drain the manager's outgoing status channel like the Core does
		for range out {
		}
	}()
	started := func() bool { return a.okStarts > a.closes }
	known := false // Register was called and no Unregister since
	failedRetry := 0
	steps := verif.Size("steps", 1, verif.Param("maxsteps", 4))
	for i := 0; i < steps; i++ {
		wasStarted := started()
		starts, closes := a.starts, a.closes
		ev := verif.Choose(nm("ev", i), 4)
		a.next = verif.Choose(nm("out", i), 3)
		if shards := verif.Param("shards", 1); shards > 1 && i == 0 {
			verif.Assume((ev*3+a.next)%shards == verif.Param("shard", 0))
		}
		switch ev {
		case 0: // register
			m.Register(a)
			if wasStarted {
				verif.Assert(a.starts == starts, "registering an active address again keeps the single started instance")
			}
			verif.Assert(a.starts <= starts+1, "one registration starts an adapter at most once")
			known = true
		case 1: // retry tick
			time.Sleep(m.retryTime + time.Millisecond)
			if wasStarted {
				verif.Assert(a.starts == starts, "a started adapter is left alone by the retry ticker")
			}
			if known && !wasStarted && a.permanent && failedRetry > 0 && a.starts == starts {
				verif.Assert(false, "a permanent adapter whose start failed is retried at every retry interval")
			}
			if !known {
				verif.Assert(a.starts == starts, "an unregistered adapter is forgotten: the retry ticker does not start it again")
			}
		case 2: // unregister
			m.Unregister(a)
			if wasStarted {
				verif.Assert(a.closes == closes+1, "unregistering a started adapter stops it exactly once")
			}
			verif.Assert(!started(), "an unregistered adapter is stopped")
			known = false
			failedRetry = 0
		case 3: // the started adapter reports the loss of its peer: the manager restarts it
			if !wasStarted {
				break
			}
			a.ch <- NewConvergencePeerDisappeared(a, bpv7.DtnNone())
			time.Sleep(time.Millisecond)
			verif.Assert(a.closes == closes+1, "a reported peer loss stops the adapter exactly once")
			verif.Assert(a.starts == starts+1, "and starts it again exactly once")
		}
		if a.starts > starts && a.next == 1 {
			failedRetry++
		}
		if a.starts > starts && a.next == 2 {
			failedRetry = 0 // a final failure: no retry is owed
		}
		verif.Assert(a.closes <= a.okStarts, "an adapter is never closed more often than it was started")
		n := 0
		for _, s := range m.Sender() {
			if s == ConvergenceSender(a) {
				n++
			}
		}
		verif.Assert(n <= 1, "a single instance per address")
		if !known {
			verif.Assert(n == 0, "an unregistered adapter is not listed")
		}
		verif.Assert((n == 1) == started(), "listed among the active senders exactly while the most recent start succeeded and it was not stopped since")
	}
	verif.Assert(m.Close() == nil, "manager closes")
	verif.Assert(a.closes == a.okStarts, "closing the manager stops every started adapter exactly once")
	verif.Reach("end")
}
