//go:build verif

package bbc

import (
	"bytes"

	"github.com/dtn7/dtn7-go/pkg/bpv7"
	"github.com/dtn7/dtn7-go/pkg/cla"
	verif "github.com/dtn7/dtn7-go/pkg/zzverif"
	"github.com/ulikunitz/xz"
)

type nullModem struct{ mtu int }

func (m nullModem) Mtu() int                   { return m.mtu }
func (m nullModem) Send(Fragment) error        { return nil }
func (m nullModem) Receive() (Fragment, error) { return Fragment{}, nil }
func (m nullModem) Close() error               { return nil }
func (m nullModem) String() string             { return "null" }

func trainBundle(n int) bpv7.Bundle {
	b, err := bpv7.Builder().Source("dtn://src/").Destination("dtn://dst/").CreationTimestampEpoch().Lifetime("1h").
		BundleAgeBlock(uint64(0)).PayloadBlock(verif.Bytes("pl", n)).Build()
	if err != nil {
		verif.Assert(false, "bundle builds")
	}
	return b
}

func enc(b bpv7.Bundle) []byte {
	var w bytes.Buffer
	_ = b.WriteBundle(&w)
	return append([]byte{}, w.Bytes()...)
}

// H12_BbcTrain: a bundle is split into link fragments no larger than the modem MTU, consecutive sequence numbers
// (modulo 16), start/end marks on the first/last; the receiver reassembles the identical bundle. With one fault
// (drop, duplicate, swap with next) at any position: never a different bundle, delivered only if every fragment
// arrived once and in order, and a failure fragment is emitted as soon as a later fragment of the damaged train
// arrives. (xz is the identity codec in this model.)
func H12_BbcTrain() {
	mtu := verif.Size("mtu", 3, verif.Param("maxmtu", 6))
	b := trainBundle(verif.Size("n", 0, 2))
	want := enc(b)
	// the link-level byte stream (xz of the encoding; the identity codec under the engine)
	var sbuf bytes.Buffer
	xw, xerr := xz.NewWriter(&sbuf)
	if xerr != nil || b.WriteBundle(xw) != nil || xw.Close() != nil {
		verif.Assert(false, "stream encodes")
		return
	}
	stream := sbuf.Bytes()
	tid := verif.U8("tid")
	out, err := NewOutgoingTransmission(tid, b, mtu)
	verif.Assert(err == nil, "outgoing transmission created")
	var train []Fragment
	for {
		f, fin, werr := out.WriteFragment()
		verif.Assert(werr == nil, "fragment written")
		train = append(train, f)
		verif.Assert(len(train) <= len(stream)+1, "the train ends")
		if fin {
			break
		}
	}
	// the train itself
	total := 0
	for i, f := range train {
		verif.Assert(len(f.Bytes()) <= mtu, "link fragment no larger than the modem MTU")
		verif.Assert(f.TransmissionID() == tid, "one transmission id per bundle")
		verif.Assert(f.StartBit() == (i == 0), "start mark on exactly the first fragment")
		verif.Assert(f.EndBit() == (i == len(train)-1), "end mark on exactly the last fragment")
		verif.Assert(!f.FailBit(), "no failure mark on data fragments")
		if i > 0 {
			verif.Assert(f.SequenceNumber() == (train[i-1].SequenceNumber()+1)%16, "consecutive sequence numbers")
		}
		total += len(f.Payload)
	}
	verif.Assert(total == len(stream), "fragments carry the whole stream")

	// fault injection
	fault := verif.Choose("fault", 4) // 0 none, 1 drop, 2 duplicate, 3 swap with next
	pos := 0
	if fault != 0 {
		pos = verif.Size("pos", 0, len(train)-1)
	}
	var rx []Fragment
	switch fault {
	case 0:
		rx = train
	case 1:
		rx = append(append([]Fragment{}, train[:pos]...), train[pos+1:]...)
	case 2:
		rx = append(append(append([]Fragment{}, train[:pos+1]...), train[pos]), train[pos+1:]...)
	case 3:
		if pos+1 >= len(train) {
			return
		}
		rx = append([]Fragment{}, train...)
		rx[pos], rx[pos+1] = rx[pos+1], rx[pos]
	}
	c := &Connector{modem: nullModem{mtu}, transmissions: make(map[byte]*IncomingTransmission), fragmentOut: make(chan Fragment, 256),
		failTransmission: make(chan byte, 64), reportChan: make(chan cla.ConvergenceStatus, 64)}
	firstErr := -1
	for i, f := range rx {
		g, perr := ParseFragment(f.Bytes())
		verif.Assert(perr == nil, "fragment parses")
		if herr := c.handleIncomingFragment(g); herr != nil && firstErr < 0 {
			firstErr = i
		}
	}
	delivered := 0
	for len(c.reportChan) > 0 {
		st := <-c.reportChan
		if st.MessageType == cla.ReceivedBundle {
			delivered++
			got := st.Message.(cla.ConvergenceReceivedBundle).Bundle
			verif.Assert(bytes.Equal(enc(*got), want), "a delivered bundle is identical to the one sent")
		}
	}
	failures := len(c.fragmentOut)
	if fault == 0 {
		verif.Assert(delivered == 1, "without faults the bundle is delivered exactly once")
		verif.Assert(failures == 0, "without faults no failure is signalled")
		verif.Reach("clean")
		return
	}
	verif.Reach("faulty")
	if fault == 2 && pos == len(train)-1 {
		// a duplicate of the final fragment arrives after the (identical) bundle was completed
		verif.Assert(delivered == 1, "a repeated final fragment does not deliver the bundle a second time")
	} else {
		verif.Assert(delivered == 0, "a damaged train delivers nothing")
	}
	// a failure is signalled unless the damage is only the loss of the final fragment(s)
	lostTailOnly := fault == 1 && pos == len(train)-1
	if !lostTailOnly {
		verif.Assert(failures > 0, "the receiver signals failure for a damaged train")
		// as soon as the first out-of-place fragment arrives
		exp := pos
		if fault == 2 {
			exp = pos + 1
		}
		if fault == 1 && pos == 0 {
			exp = 0
		}
		verif.Assert(firstErr == exp, "failure is signalled as soon as a fragment arrives out of place")
		for len(c.fragmentOut) > 0 {
			ff := <-c.fragmentOut
			verif.Assert(ff.FailBit() && ff.TransmissionID() == tid, "failure fragments name the damaged transmission")
		}
	}
	verif.Reach("end")
}
