//go:build verif

package bbc

import (
	"bytes"

	verif "github.com/dtn7/dtn7-go/pkg/zzverif"
)

// H17_FragmentHeader: NewFragment / Bytes / ParseFragment and the five accessors over all header values.
func H17_FragmentHeader() {
	tid := verif.U8("tid")
	seq := verif.U8("seq")
	verif.Assume(seq < 32)
	start, end, fail := verif.Bool("start"), verif.Bool("end"), verif.Bool("fail")
	n := verif.Size("n", 0, 3)
	payload := verif.Bytes("payload", n)
	f := NewFragment(tid, seq, start, end, fail, payload)
	verif.Assert(verif.And(f.TransmissionID() == tid, f.SequenceNumber() == seq, f.StartBit() == start, f.EndBit() == end, f.FailBit() == fail), "accessors return what the fragment was built from")
	wire := f.Bytes()
	verif.Assert(len(wire) == 2+n, "header is two bytes")
	g, err := ParseFragment(wire)
	verif.Assert(err == nil, "own encoding accepted")
	verif.Assert(verif.And(g.TransmissionID() == tid, g.SequenceNumber() == seq, g.StartBit() == start, g.EndBit() == end, g.FailBit() == fail, bytes.Equal(g.Payload, payload)), "fragment decodes to an equal value")
	_, err1 := ParseFragment(wire[:1])
	verif.Assert(err1 != nil, "a one-byte fragment is rejected")
	verif.Assert(nextSequenceNumber(seq) == (seq+1)%16, "sequence numbers advance modulo 16")
	verif.Reach("end")
}
