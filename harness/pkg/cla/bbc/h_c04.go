//go:build verif

package bbc

import (
	verif "github.com/dtn7/dtn7-go/pkg/zzverif"
)

// H04_Fragments: arbitrary link fragments into ParseFragment and an incoming transmission.
func H04_Fragments() {
	var t *IncomingTransmission
	for i := 0; i < verif.Param("frags", 2); i++ {
		n := verif.Size(nm("n", i), 0, 3)
		f, err := ParseFragment(verif.Bytes(nm("frag", i), n))
		if err != nil {
			continue
		}
		_ = f.String()
		if t == nil {
			t, _ = NewIncomingTransmission(f)
		} else {
			_, _ = t.ReadFragment(f)
		}
	}
	verif.Reach("end")
}

func nm(s string, i int) string { return s + string(rune('0'+i)) }
