//go:build verif

package discovery

import (
	verif "github.com/dtn7/dtn7-go/pkg/zzverif"
)

// H04_Announcements: N fully symbolic bytes into the discovery packet decoder.
func H04_Announcements() {
	n := verif.Param("n", 7)
	in := verif.Bytes("in", n)
	verif.InputLen(n)
	verif.Observe("in", in)
	_, _ = UnmarshalAnnouncements(in)
	verif.Reach("end")
}
