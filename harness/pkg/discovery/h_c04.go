//go:build verif

package discovery

import (
	"github.com/dtn7/dtn7-go/pkg/bpv7"
	"github.com/dtn7/dtn7-go/pkg/cla"
	verif "github.com/dtn7/dtn7-go/pkg/zzverif"
)

// H04_Announcements: N fully symbolic bytes into the discovery packet decoder.
func H04_Announcements() {
	n := verif.Param("n", 7)
	in := verif.Bytes("in", n)
	verif.InputLen(n)
	verif.Observe("in", in)
	_, _ = UnmarshalAnnouncements(in)
	verif.Reach("end")
}

// H04_AnnouncementsWide: an otherwise valid beacon (two announcements) in which one array count or string length is
// re-encoded as an arbitrary 64-bit value.
func H04_AnnouncementsWide() {
	enc, err := MarshalAnnouncements([]Announcement{
		{Type: cla.MTCP, Endpoint: bpv7.MustNewEndpointID("dtn://a/"), Port: 35037},
		{Type: cla.TCPCLv4, Endpoint: bpv7.MustNewEndpointID("ipn:23.42"), Port: 4556},
	})
	verif.Assume(err == nil)
	hs := verif.CborHeaders(enc)
	p := hs[verif.Choose("header", len(hs))]
	in := verif.WidenHeader(enc, p, verif.Bytes("arg", 8))
	verif.InputLen(len(in))
	verif.Observe("in", in)
	_, _ = UnmarshalAnnouncements(in)
	verif.Reach("end")
}
