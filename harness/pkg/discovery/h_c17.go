//go:build verif

package discovery

import (
	"github.com/dtn7/dtn7-go/pkg/bpv7"
	"github.com/dtn7/dtn7-go/pkg/cla"
	verif "github.com/dtn7/dtn7-go/pkg/zzverif"
)

// H17_Announcements: 0..2 announcements with symbolic type, port and ipn endpoint numbers.
func H17_Announcements() {
	n := verif.Size("n", 0, 2)
	var as []Announcement
	for i := 0; i < n; i++ {
		node, svc := verif.U64(nm("node", i)), verif.U64(nm("svc", i))
		verif.Assume(node >= 1 && svc >= 1 && node < 24 && svc < 24)
		port := verif.U64(nm("port", i))
		if i == 1 {
			verif.Assume(port < 24)
		}
		as = append(as, Announcement{Type: cla.CLAType(verif.U64(nm("type", i))), Endpoint: bpv7.EndpointID{EndpointType: bpv7.IpnEndpoint{Node: node, Service: svc}}, Port: uint(port)})
		verif.Assume(uint64(as[i].Type) < 24)
	}
	data, err := MarshalAnnouncements(as)
	verif.Assert(err == nil, "announcements serialise")
	verif.InputLen(len(data))
	back, derr := UnmarshalAnnouncements(data)
	valid := true
	for _, a := range as {
		valid = verif.And(valid, a.Type.CheckValid() == nil)
	}
	verif.Assert((derr == nil) == valid, "announcements: accepted exactly when every CLA type code is valid")
	if derr != nil {
		verif.Reach("rejected")
		return
	}
	verif.Assert(len(back) == len(as), "same number of announcements")
	eq := true
	for i := range as {
		eq = verif.And(eq, as[i].Type == back[i].Type, as[i].Endpoint == back[i].Endpoint, as[i].Port == back[i].Port)
	}
	verif.Assert(eq, "announcements decode to equal values")
	verif.Reach("end")
}

func nm(s string, i int) string { return s + string(rune('0'+i)) }
