//go:build verif

package bpv7

import (
	"bytes"

	verif "github.com/dtn7/dtn7-go/pkg/zzverif"
)

// mkFragment builds the fragment [off, off+n) of a bundle with payload `payload`.
func mkFragment(payload []byte, off, n int, withExt bool) Bundle {
	pb := PrimaryBlock{Version: dtnVersion, BundleControlFlags: IsFragment | StatusRequestDelivery, CRCType: CRC16,
		Destination: symEID("", 4, false), SourceNode: symEID("", 1, false), ReportTo: symEID("", 1, false),
		CreationTimestamp: NewCreationTimestamp(DtnTime(tsAlive), 5), Lifetime: 1000,
		FragmentOffset: uint64(off), TotalDataLength: uint64(len(payload))}
	var cbs []CanonicalBlock
	cbs = append(cbs, CanonicalBlock{BlockNumber: 4, BlockControlFlags: ReplicateBlock, Value: &HopCountBlock{Limit: 9, Count: 3}})
	if withExt {
		cbs = append(cbs, CanonicalBlock{BlockNumber: 2, Value: NewBundleAgeBlock(11)})
	}
	cbs = append(cbs, CanonicalBlock{BlockNumber: 1, CRCType: CRC32, Value: NewPayloadBlock(append([]byte{}, payload[off:off+n]...))})
	return MustNewBundle(pb, cbs)
}

// H10_Cover: any collection of up to k fragments (duplicates, overlaps, containment, gaps, any order) of one payload:
// reassembly and the reassemblability test succeed exactly when the fragments cover the payload, then return the
// original payload; never a panic, never different data.
func H10_Cover() {
	L := verif.Size("L", 1, verif.Param("maxlen", 4))
	payload := verif.Bytes("pl", L)
	k := verif.Size("k", 1, verif.Param("maxfrags", 3))
	covered := make([]bool, L)
	var fs []Bundle
	for i := 0; i < k; i++ {
		off := verif.Size(nm("off", i), 0, L-1)
		n := verif.Size(nm("len", i), 1, L-off)
		fs = append(fs, mkFragment(payload, off, n, off == 0))
		for j := off; j < off+n; j++ {
			covered[j] = true
		}
	}
	covers := true
	for _, c := range covered {
		covers = covers && c
	}
	in1 := append([]Bundle{}, fs...)
	verif.Assert(IsBundleReassemblable(in1) == covers, "reassemblable exactly when the fragments cover the payload")
	in2 := append([]Bundle{}, fs...)
	r, err := ReassembleFragments(in2)
	verif.Assert((err == nil) == covers, "reassembly succeeds exactly when the fragments cover the payload")
	if err == nil {
		verif.Reach("reassembled")
		verif.Assert(bytes.Equal(payloadOf(r), payload), "reassembled payload is the original payload")
		verif.Assert(!r.PrimaryBlock.BundleControlFlags.Has(IsFragment), "reassembled bundle is not a fragment")
		hc, herr := r.ExtensionBlock(ExtBlockTypeHopCountBlock)
		verif.Assert(herr == nil && hc.BlockNumber == 4, "replicated extension block returns with its number")
		_, aerr := r.ExtensionBlock(ExtBlockTypeBundleAgeBlock)
		verif.Assert(aerr == nil, "extension blocks of the first fragment return")
	} else {
		verif.Reach("incomplete")
	}
}

// H10_Refragment: fragments of a fragment keep offsets relative to the original payload and the original total
// length; first- and second-level fragments, mixed, reassemble to the original.
func H10_Refragment() {
	n := 40 + verif.Choose("n", 2)*24
	b := symFragBundle(n, 1+verif.Choose("variant", 2))
	verif.Assume(b.CheckValid() == nil)
	orig := serialised(b)
	m1 := verif.Size("m1", len(orig)-24, len(orig)-1)
	f1, err := b.Fragment(m1)
	if err != nil || len(f1) < 2 {
		verif.Reach("no-first-level")
		return
	}
	which := verif.Choose("which", 2)
	if which >= len(f1) {
		return
	}
	victim := f1[which]
	venc := serialised(victim)
	m2 := verif.Size("m2", len(venc)-12, len(venc)-1)
	f2, err := victim.Fragment(m2)
	if err != nil || len(f2) < 2 {
		verif.Reach("no-second-level")
		return
	}
	verif.Reach("second-level")
	vOff := int(victim.PrimaryBlock.FragmentOffset)
	next := vOff
	for _, f := range f2 {
		verif.Assert(len(serialised(f)) <= m2, "second-level fragment fits its limit")
		verif.Assert(f.PrimaryBlock.TotalDataLength == uint64(n), "second-level fragment keeps the original total length")
		verif.Assert(f.PrimaryBlock.FragmentOffset == uint64(next), "second-level offsets are relative to the original payload")
		next += len(payloadOf(f))
	}
	verif.Assert(next == vOff+len(payloadOf(victim)), "second-level fragments cover their parent")
	// mixed set: all first-level fragments except the victim, plus its second-level fragments (reverse order)
	var mixed []Bundle
	for i := len(f2) - 1; i >= 0; i-- {
		mixed = append(mixed, f2[i])
	}
	for i, f := range f1 {
		if i != which {
			mixed = append(mixed, f)
		}
	}
	r, rerr := ReassembleFragments(mixed)
	verif.Assert(rerr == nil, "mixed first/second-level fragments reassemble")
	verif.Assert(bytes.Equal(serialised(r), orig), "mixed reassembly is byte-identical to the original")
	// overlapping set: the victim itself plus its own pieces plus the rest
	all := append(append([]Bundle{}, f1...), f2...)
	r2, rerr2 := ReassembleFragments(all)
	verif.Assert(rerr2 == nil, "overlapping first+second-level fragments reassemble")
	verif.Assert(bytes.Equal(payloadOf(r2), payloadOf(b)), "overlapping reassembly returns the original payload")
	verif.Reach("end")
}
