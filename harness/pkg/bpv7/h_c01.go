//go:build verif

package bpv7

import (
	"errors"
	"bytes"
	"math"

	verif "github.com/dtn7/dtn7-go/pkg/zzverif"
)

// H01_Primary: marshal -> unmarshal -> equal in every field, reader drained -> marshal again -> same bytes.
// All flag combinations, CRC none/16/32, fragment or not, all endpoint forms; one field at a time is a
// full 64-bit value (wide = index of that field), the others are < 24.
func H01_Primary() {
	wide := verif.Choose("wide", 8)
	pb := PrimaryBlock{Version: dtnVersion}
	pb.BundleControlFlags = BundleControlFlags(symU64w("flags", wide == 0))
	pb.CRCType = CRCType(verif.Choose("crc", 3))
	ks := verif.Choose("eidkinds", 4)
	switch ks {
	case 0:
		pb.Destination, pb.SourceNode, pb.ReportTo = symEID("d", 1, false), symEID("s", 0, false), symEID("r", 0, false)
	case 1:
		pb.Destination, pb.SourceNode, pb.ReportTo = symEID("d", 3, wide == 1), symEID("s", 4, false), symEID("r", 5, false)
	case 2:
		pb.Destination, pb.SourceNode, pb.ReportTo = symEID("d", 4, false), symEID("s", 3, wide == 2), symEID("r", 1, false)
	case 3:
		pb.Destination, pb.SourceNode, pb.ReportTo = symEID("d", 2, false), symEID("s", 1, false), symEID("r", 3, wide == 3)
	}
	pb.CreationTimestamp = NewCreationTimestamp(DtnTime(symU64w("ts", wide == 4)), symU64w("seq", wide == 5))
	pb.Lifetime = symU64w("life", wide == 6)
	if pb.BundleControlFlags.Has(IsFragment) {
		pb.FragmentOffset = symU64w("off", wide == 7)
		pb.TotalDataLength = symU64w("tot", wide == 7)
	}
	var w bytes.Buffer
	if err := pb.MarshalCbor(&w); err != nil {
		verif.Reach("marshal-refused")
		return
	}
	enc := append([]byte{}, w.Bytes()...)
	w.WriteByte(0x17)
	var pb2 PrimaryBlock
	verif.Assert(pb2.UnmarshalCbor(&w) == nil, "primary: own encoding is accepted")
	verif.Assert(w.Len() == 1, "primary: decoder consumes exactly the encoding")
	verif.Assert(primaryEqual(pb, pb2), "primary: every field survives the round trip")
	var w2 bytes.Buffer
	verif.Assert(pb2.MarshalCbor(&w2) == nil, "primary: re-marshal ok")
	verif.Assert(bytes.Equal(enc, w2.Bytes()), "primary: re-serialisation is byte-identical")
	verif.Observe("enc", enc)
	verif.Reach("end")
}

// symBlockValue builds the value of a canonical block of the chosen kind.
//  0 payload (n symbolic bytes), 1 previous node, 2 bundle age, 3 hop count, 4 binary spray,
//  5 DTLSR (0..1 peers), 6 PRoPHET (0..1 entries, arbitrary float64 bit patterns), 7 signature, 8 unknown type code
func symBlockValue(pfx string, kind int, wide bool) ExtensionBlock {
	switch kind {
	case 0:
		n := verif.Size(pfx+"_plen", 0, 3)
		return NewPayloadBlock(verif.Bytes(pfx+"_pl", n))
	case 1:
		return NewPreviousNodeBlock(symEID(pfx+"_prev", 1+2*verif.Choose(pfx+"_pk", 2), wide))
	case 2:
		return NewBundleAgeBlock(symU64w(pfx+"_age", wide))
	case 3:
		return &HopCountBlock{Limit: verif.U8(pfx + "_hl"), Count: verif.U8(pfx + "_hc")}
	case 4:
		return NewBinarySprayBlock(symU64w(pfx+"_copies", wide))
	case 5:
		pd := DTLSRPeerData{ID: symEID(pfx+"_id", 4, false), Timestamp: DtnTime(symU64w(pfx+"_dts", wide)), Peers: map[EndpointID]DtnTime{}}
		if verif.Choose(pfx+"_npeers", 2) == 1 {
			pd.Peers[symEID(pfx+"_peer", 3, false)] = DtnTime(symU64w(pfx+"_pts", false))
		}
		return NewDTLSRBlock(pd)
	case 6:
		m := map[EndpointID]float64{}
		if verif.Choose(pfx+"_nent", 2) == 1 {
			m[symEID(pfx+"_pe", 1, false)] = verif.F64(pfx + "_pred")
		}
		return NewProphetBlock(m)
	case 7:
		return &SignatureBlock{PublicKey: verif.Bytes(pfx+"_pk", verif.Size(pfx+"_pkl", 0, 2)), Signature: verif.Bytes(pfx+"_sig", verif.Size(pfx+"_sigl", 0, 2))}
	default:
		tc := symU64w(pfx+"_type", wide)
		verif.Assume(tc != 1 && tc != 6 && tc != 7 && tc != 10 && tc != 192 && tc != 193 && tc != 194 && tc != 195)
		return NewGenericExtensionBlock(verif.Bytes(pfx+"_gd", verif.Size(pfx+"_gdl", 0, 2)), tc)
	}
}

// extValueEqual compares the contents of two extension block values of the same kind.
func extValueEqual(_ int, a, b ExtensionBlock) bool {
	kind := 8
	switch a.(type) {
	case *PayloadBlock:
		kind = 0
	case *PreviousNodeBlock:
		kind = 1
	case *BundleAgeBlock:
		kind = 2
	case *HopCountBlock:
		kind = 3
	case *BinarySprayBlock:
		kind = 4
	case *DTLSRBlock:
		kind = 5
	case *ProphetBlock:
		kind = 6
	case *SignatureBlock:
		kind = 7
	}
	switch kind {
	case 0:
		x, ok := b.(*PayloadBlock)
		return ok && bytes.Equal(a.(*PayloadBlock).Data(), x.Data())
	case 1:
		x, ok := b.(*PreviousNodeBlock)
		return ok && a.(*PreviousNodeBlock).Endpoint() == x.Endpoint()
	case 2:
		x, ok := b.(*BundleAgeBlock)
		return ok && a.(*BundleAgeBlock).Age() == x.Age()
	case 3:
		x, ok := b.(*HopCountBlock)
		return ok && *a.(*HopCountBlock) == *x
	case 4:
		x, ok := b.(*BinarySprayBlock)
		return ok && a.(*BinarySprayBlock).RemainingCopies() == x.RemainingCopies()
	case 5:
		x, ok := b.(*DTLSRBlock)
		if !ok {
			return false
		}
		pa, pb := a.(*DTLSRBlock).GetPeerData(), x.GetPeerData()
		if pa.ID != pb.ID || len(pa.Peers) != len(pb.Peers) {
			return false
		}
		eq := pa.Timestamp == pb.Timestamp
		for k, v := range pa.Peers {
			v2, ok := pb.Peers[k]
			eq = verif.And(eq, ok, v == v2)
		}
		return eq
	case 6:
		x, ok := b.(*ProphetBlock)
		if !ok {
			return false
		}
		ma, mb := a.(*ProphetBlock).GetPredictabilities(), x.GetPredictabilities()
		if len(ma) != len(mb) {
			return false
		}
		eq := true
		for k, v := range ma {
			v2, ok := mb[k]
			eq = verif.And(eq, ok, math.Float64bits(v) == math.Float64bits(v2))
		}
		return eq
	case 7:
		x, ok := b.(*SignatureBlock)
		return ok && bytes.Equal(a.(*SignatureBlock).PublicKey, x.PublicKey) && bytes.Equal(a.(*SignatureBlock).Signature, x.Signature)
	default:
		x, ok := b.(*GenericExtensionBlock)
		if !ok {
			return false
		}
		return verif.And(a.(*GenericExtensionBlock).typeCode == x.typeCode, bytes.Equal(a.(*GenericExtensionBlock).data, x.data))
	}
}

// H01_Canonical: one canonical block of every registered type (and of unknown types): marshal, unmarshal, equal in
// type, number, flags, CRC type and content; decoder stays aligned; re-marshal is byte-identical.
func H01_Canonical() {
	registerRoutingBlocks()
	kind := verif.Choose("kind", 9)
	wide := verif.Choose("wide", 3)
	cb := CanonicalBlock{
		BlockNumber:       symU64w("bn", wide == 0),
		BlockControlFlags: BlockControlFlags(symU64w("bcf", wide == 1)),
		CRCType:           CRCType(verif.Choose("crc", 3)),
		Value:             symBlockValue("v", kind, wide == 2),
	}
	var w bytes.Buffer
	if err := cb.MarshalCbor(&w); err != nil {
		verif.Reach("marshal-refused")
		return
	}
	enc := append([]byte{}, w.Bytes()...)
	w.WriteByte(0x17)
	var cb2 CanonicalBlock
	verif.Assert(cb2.UnmarshalCbor(&w) == nil, "canonical: own encoding is accepted")
	verif.Assert(w.Len() == 1, "canonical: decoder consumes exactly the encoding")
	verif.Assert(cb2.BlockNumber == cb.BlockNumber, "canonical: block number survives")
	verif.Assert(cb2.BlockControlFlags == cb.BlockControlFlags, "canonical: block flags survive")
	verif.Assert(cb2.CRCType == cb.CRCType, "canonical: CRC type survives")
	verif.Assert(cb2.TypeCode() == cb.TypeCode(), "canonical: type code survives")
	verif.Assert(extValueEqual(kind, cb.Value, cb2.Value), "canonical: content survives")
	var w2 bytes.Buffer
	verif.Assert(cb2.MarshalCbor(&w2) == nil, "canonical: re-marshal ok")
	verif.Assert(bytes.Equal(enc, w2.Bytes()), "canonical: re-serialisation is byte-identical")
	verif.Observe("enc", enc)
	verif.Reach("end")
}

// symPrimarySmall: a small primary block family for whole-bundle harnesses.
//
// focus selects which dimension is explored in full while the others take representative values (the product
// of all dimensions is outside the bound): 0 = control flags fully symbolic (all 2^21 combinations);
// 1 = extension block kinds, CRC patterns and block numbers in full; 2 = flags from a representative set,
// endpoint forms and primary CRC type in full.
func symPrimarySmall(allowFrag bool, focus int) PrimaryBlock {
	pb := PrimaryBlock{Version: dtnVersion}
	var fl uint64
	eids := 0
	if focus == 0 {
		fl = verif.U64("flags")
		verif.Assume(fl < 1<<21)
		pb.CRCType = CRC32
	} else if focus == 1 {
		fl = uint64(StatusRequestDelivery)
		pb.CRCType = CRC16
	} else {
		switch verif.Choose("flagset", 4) {
		case 0:
			fl = 0
		case 1:
			fl = uint64(MustNotFragmented | StatusRequestDelivery | RequestStatusTime)
		case 2:
			fl = uint64(IsFragment | StatusRequestReception | StatusRequestForward | StatusRequestDeletion)
		case 3:
			fl = uint64(AdministrativeRecordPayload | MustNotFragmented)
		}
		pb.CRCType = CRCType(verif.Choose("pcrc", 3))
		eids = verif.Choose("eids", 3)
	}
	if !allowFrag {
		verif.Assume(fl&uint64(IsFragment) == 0)
	}
	pb.BundleControlFlags = BundleControlFlags(fl)
	switch eids {
	case 0:
		pb.Destination, pb.SourceNode, pb.ReportTo = symEID("d", 4, false), symEID("s", 1, false), symEID("r", 1, false)
	case 1:
		pb.Destination, pb.SourceNode, pb.ReportTo = symEID("d", 5, false), symEID("s", 0, false), symEID("r", 0, false)
	case 2:
		pb.Destination, pb.SourceNode, pb.ReportTo = symEID("d", 1, false), symEID("s", 3, false), symEID("r", 4, false)
	}
	pb.CreationTimestamp = NewCreationTimestamp(DtnTime(tsAlive), symU64w("seq", false))
	pb.Lifetime = symU64w("life", false)
	if pb.BundleControlFlags.Has(IsFragment) {
		pb.FragmentOffset = symU64w("off", false)
		pb.TotalDataLength = symU64w("tot", false)
	}
	return pb
}

func bundlesEqual(kinds []int, a, b Bundle) bool {
	if len(a.CanonicalBlocks) != len(b.CanonicalBlocks) {
		return false
	}
	eq := primaryEqual(a.PrimaryBlock, b.PrimaryBlock)
	for i := range a.CanonicalBlocks {
		x, y := a.CanonicalBlocks[i], b.CanonicalBlocks[i]
		if x.TypeCode() != y.TypeCode() {
			return false
		}
		k := kindOfType(x.TypeCode())
		eq = verif.And(eq, x.BlockNumber == y.BlockNumber, x.BlockControlFlags == y.BlockControlFlags, x.CRCType == y.CRCType, extValueEqual(k, x.Value, y.Value))
	}
	return eq
}

func kindOfType(tc uint64) int {
	switch tc {
	case 1:
		return 0
	case 6:
		return 1
	case 7:
		return 2
	case 10:
		return 3
	case 192:
		return 4
	case 193:
		return 5
	case 194:
		return 6
	case 195:
		return 7
	}
	return 8
}

// symBundle builds a bundle family: a payload block (0..3 symbolic bytes) plus next extension blocks of pairwise
// distinct types (all 8 non-payload kinds incl. unknown type codes) and distinct block numbers; the CRC types of
// the blocks follow one of four patterns (none / all 16 / all 32 / mixed).
func symBundle(next int, allowFrag bool) (Bundle, []int) {
	focus := verif.Choose("focus", 3)
	pb := symPrimarySmall(allowFrag, focus)
	crcpat := 3
	if focus == 1 {
		crcpat = verif.Choose("crcpat", 4)
	}
	crcOf := func(i int) CRCType {
		switch crcpat {
		case 0:
			return CRCNo
		case 1:
			return CRC16
		case 2:
			return CRC32
		}
		return CRCType((i + 1) % 3)
	}
	var cbs []CanonicalBlock
	var kinds []int
	k0 := 0
	for i := 0; i < next; i++ {
		var k int
		if i == 0 {
			if focus == 2 {
				k0 = 2 // hop count
			} else {
				k0 = verif.Choose("k0", 8)
			}
			k = 1 + k0
		} else {
			k = 1 + (k0+1+verif.Choose(nm("k", i), 7))%8
		}
		kinds = append(kinds, k)
		if shards := verif.Param("shards", 1); shards > 1 && next >= 2 && i == 1 {
			// the check configuration splits the pairs of block kinds over several workers
			verif.Assume((k-1)%shards == verif.Param("shard", 0))
		}
		bn := uint64(2 + i + 2*verif.Choose(nm("bn", i), 2)) // {2,4} then {3,5}
		cbs = append(cbs, CanonicalBlock{
			BlockNumber:       bn,
			BlockControlFlags: BlockControlFlags(symU64w(nm("bcf", i), false)),
			CRCType:           crcOf(i),
			Value:             symBlockValue(nm("b", i), k, false),
		})
	}
	cbs = append(cbs, CanonicalBlock{BlockNumber: 1, BlockControlFlags: BlockControlFlags(symU64w("pbcf", false)), CRCType: crcOf(2), Value: symBlockValue("pl", 0, false)})
	return MustNewBundle(pb, cbs), kinds
}

// H01_Bundle: whole bundles: WriteBundle -> ParseBundle -> equal in every field, payload last -> WriteBundle ->
// identical bytes.
func H01_Bundle() {
	registerRoutingBlocks()
	next := verif.Size("next", verif.Param("minext", 0), verif.Param("maxext", 1))
	b, kinds := symBundle(next, true)
	if b.CheckValid() != nil {
		verif.Reach("invalid")
		return
	}
	var w bytes.Buffer
	verif.Assert(b.WriteBundle(&w) == nil, "bundle: a valid bundle serialises")
	enc := append([]byte{}, w.Bytes()...)
	b2, err := ParseBundle(&w)
	verif.Assert(err == nil, "bundle: own encoding of a valid bundle is accepted")
	verif.Assert(w.Len() == 0, "bundle: parser consumes the whole encoding")
	verif.Assert(bundlesEqual(kinds, b, b2), "bundle: every block and field survives the round trip")
	last := b2.CanonicalBlocks[len(b2.CanonicalBlocks)-1]
	verif.Assert(last.TypeCode() == ExtBlockTypePayloadBlock, "bundle: payload block is last")
	var w2 bytes.Buffer
	verif.Assert(b2.WriteBundle(&w2) == nil, "bundle: re-serialise ok")
	verif.Assert(bytes.Equal(enc, w2.Bytes()), "bundle: re-serialisation is byte-identical")
	verif.Observe("enc", enc)
	verif.Reach("end")
}

// tmplBundle returns concrete template bundles without any CRC (so that a mutated encoding is not rejected merely by
// its checksum).
func tmplBundle(which int) Bundle {
	switch which {
	case 0:
		pb := PrimaryBlock{Version: dtnVersion, BundleControlFlags: MustNotFragmented | StatusRequestDelivery, CRCType: CRCNo,
			Destination: symEID("", 4, false), SourceNode: symEID("", 1, false), ReportTo: symEID("", 1, false),
			CreationTimestamp: NewCreationTimestamp(DtnTime(tsAlive), 3), Lifetime: 1000}
		return MustNewBundle(pb, []CanonicalBlock{
			{BlockNumber: 2, Value: &HopCountBlock{Limit: 9, Count: 2}},
			{BlockNumber: 3, BlockControlFlags: ReplicateBlock, Value: NewPreviousNodeBlock(symEID("", 5, false))},
			{BlockNumber: 1, Value: NewPayloadBlock([]byte("abc"))},
		})
	default:
		pb := PrimaryBlock{Version: dtnVersion, BundleControlFlags: IsFragment, CRCType: CRCNo,
			Destination: symEID("", 5, false), SourceNode: EndpointID{IpnEndpoint{Node: 23, Service: 42}}, ReportTo: DtnNone(),
			CreationTimestamp: NewCreationTimestamp(DtnTimeEpoch, 0), Lifetime: 1000000, FragmentOffset: 2, TotalDataLength: 9}
		return MustNewBundle(pb, []CanonicalBlock{
			{BlockNumber: 4, Value: NewBundleAgeBlock(5)},
			{BlockNumber: 7, Value: NewGenericExtensionBlock([]byte{1, 2}, 77)},
			{BlockNumber: 1, Value: NewPayloadBlock([]byte{0xff, 0})},
		})
	}
}

// stableAfterAccept: the second sentence of C01 for one accepted input.
func stableAfterAccept(b Bundle) {
	var w bytes.Buffer
	verif.Assert(b.WriteBundle(&w) == nil, "accepted input re-serialises")
	b2, err := ParseBundle(&w)
	verif.Assert(err == nil, "re-serialised bytes are accepted again")
	verif.Assert(w.Len() == 0, "re-serialised bytes are consumed completely")
	i1, i2 := b.ID(), b2.ID()
	idEq := verif.And(i1.SourceNode == i2.SourceNode, i1.Timestamp == i2.Timestamp, i1.IsFragment == i2.IsFragment,
		verif.Implies(i1.IsFragment, verif.And(i1.FragmentOffset == i2.FragmentOffset, i1.TotalDataLength == i2.TotalDataLength)))
	verif.Assert(idEq, "same bundle ID after re-serialisation")
	verif.Assert(len(b.CanonicalBlocks) == len(b2.CanonicalBlocks), "same number of blocks after re-serialisation")
	eq := true
	for i := range b.CanonicalBlocks {
		x, y := b.CanonicalBlocks[i], b2.CanonicalBlocks[i]
		if x.TypeCode() != y.TypeCode() {
			verif.Assert(false, "same block types after re-serialisation")
			return
		}
		eq = verif.And(eq, x.BlockNumber == y.BlockNumber, x.BlockControlFlags == y.BlockControlFlags, extValueEqual(kindOfType(x.TypeCode()), x.Value, y.Value))
	}
	verif.Assert(eq, "same blocks and payload after re-serialisation")
	last := b2.CanonicalBlocks[len(b2.CanonicalBlocks)-1]
	verif.Assert(last.TypeCode() == ExtBlockTypePayloadBlock, "payload block last after re-serialisation")
}

// H01_ParseStable: a window of w fully symbolic bytes slides over the encoding of a CRC-less template bundle;
// whatever the parser accepts must re-serialise to something it accepts again, with the same ID, blocks and payload.
func H01_ParseStable() {
	t := tmplBundle(verif.Choose("tmpl", 2))
	var w bytes.Buffer
	if t.WriteBundle(&w) != nil {
		verif.Assert(false, "template serialises")
		return
	}
	enc := w.Bytes()
	win := verif.Param("window", 1)
	pos := verif.Size("pos", 0, len(enc)-win)
	mut := verif.Bytes("mut", win)
	in := append([]byte{}, enc...)
	copy(in[pos:], mut)
	verif.InputLen(len(in))
	verif.Observe("in", in)
	b, err := ParseBundle(bytes.NewReader(in))
	if err != nil {
		verif.Reach("rejected")
		return
	}
	verif.Reach("accepted")
	stableAfterAccept(b)
	verif.Reach("end")
}

// H01_ParseFree: N fully symbolic bytes.
func H01_ParseFree() {
	n := verif.Param("n", 6)
	in := verif.Bytes("in", n)
	verif.InputLen(n)
	b, err := ParseBundle(bytes.NewReader(in))
	if err != nil {
		verif.Reach("rejected")
		return
	}
	verif.Reach("accepted")
	stableAfterAccept(b)
}

// H01_Edited: the CRC bytes a block carries are a cache, not a field of the value: a bundle whose blocks were created
// by the constructors (which compute a CRC), or came out of the parser, and whose exported fields were changed
// afterwards is still a valid bundle - it serialises to bytes the parser accepts and yields the edited values. One
// field is edited per path: lifetime, report-to, destination, control flags, the fragment fields, a canonical block's
// flags, or its content.
func H01_Edited() {
	crcs := []CRCType{CRC16, CRC32}
	pcrc := crcs[verif.Choose("pcrc", 2)]
	pb := NewPrimaryBlock(MustNotFragmented, symEID("", 4, false), symEID("", 1, false), NewCreationTimestamp(DtnTime(tsAlive), 3), 1000)
	pb.SetCRCType(pcrc)
	cb := NewCanonicalBlock(2, 0, NewHopCountBlock(9))
	cb.SetCRCType(crcs[verif.Choose("ccrc", 2)])
	pl := NewCanonicalBlock(1, 0, NewPayloadBlock(verif.Bytes("pl", 2)))
	pl.SetCRCType(crcs[verif.Choose("lcrc", 2)])
	b := MustNewBundle(pb, []CanonicalBlock{cb, pl})
	if verif.Bool("parsedfirst") {
		// the same bundle after a trip over the wire (the parser stores the received CRC bytes)
		b2, err := ParseBundle(bytes.NewReader(serialised(b)))
		verif.Assert(err == nil, "unedited bundle is accepted")
		b = b2
	} else {
		_ = serialised(b) // a first serialisation fills the caches
	}
	hop := 0
	for i := range b.CanonicalBlocks {
		if b.CanonicalBlocks[i].TypeCode() == ExtBlockTypeHopCountBlock {
			hop = i
		}
	}
	switch verif.Choose("edit", 7) {
	case 0:
		b.PrimaryBlock.Lifetime = symU64w("lifetime", true)
	case 1:
		b.PrimaryBlock.ReportTo = symEID("rt", verif.Choose("rtkind", 6), false)
	case 2:
		b.PrimaryBlock.Destination = symEID("dst", 1+verif.Choose("dstkind", 5), false)
	case 3:
		b.PrimaryBlock.BundleControlFlags = StatusRequestDelivery | RequestStatusTime
	case 4:
		b.PrimaryBlock.BundleControlFlags = IsFragment
		b.PrimaryBlock.FragmentOffset, b.PrimaryBlock.TotalDataLength = symU64w("fo", false), symU64w("tl", true)
	case 5:
		b.CanonicalBlocks[hop].BlockControlFlags = ReplicateBlock
	case 6:
		b.CanonicalBlocks[hop].Value = &HopCountBlock{Limit: verif.U8("hl"), Count: 0}
	}
	verif.Assume(b.CheckValid() == nil)
	enc := serialised(b)
	got, err := ParseBundle(bytes.NewReader(enc))
	verif.Assert(err == nil, "an edited bundle serialises to bytes the parser accepts")
	if err != nil {
		return
	}
	verif.Assert(primaryEqual(got.PrimaryBlock, b.PrimaryBlock), "the parsed primary block carries the edited values")
	verif.Assert(len(got.CanonicalBlocks) == len(b.CanonicalBlocks), "same blocks")
	for i := range got.CanonicalBlocks {
		g, w := got.CanonicalBlocks[i], b.CanonicalBlocks[i]
		verif.Assert(verif.And(g.BlockNumber == w.BlockNumber, g.BlockControlFlags == w.BlockControlFlags, g.CRCType == w.CRCType, extValueEqual(0, w.Value, g.Value)),
			"the parsed canonical blocks carry the edited values")
	}
	verif.Assert(bytes.Equal(serialised(got), enc), "serialising the result again yields the same bytes")
	verif.Reach("end")
}

// H01_PayloadWidth: payload sizes on both sides of every CBOR length-width boundary (23/24, 255/256, 65535/65536) and
// around 1 MiB (the chunk size of the library's byte string reader): a
// bundle whose payload has exactly that many bytes (two of them symbolic, at the first and the last position) with a
// hop count block, CRC-32 on the blocks up to 256 bytes (the CRC of a 64 KiB block as an uninterpreted function of 64 Ki
// arguments is not a useful term, so the two large sizes go without a payload CRC): WriteBundle -> ParseBundle -> equal
// payload, blocks and primary block -> WriteBundle -> identical bytes, nothing left in the reader.
func H01_PayloadWidth() {
	sizes := []int{23, 24, 255, 256, 65535, 65536, 1 << 20, 1<<20 + 1}
	n := sizes[verif.Choose("size", verif.Param("nsizes", 8))]
	pl := make([]byte, n)
	for i := range pl {
		pl[i] = byte(i * 7)
	}
	edge := verif.Bytes("edge", 2)
	pl[0], pl[n-1] = edge[0], edge[1]
	crc := CRC32
	if n > 256 {
		crc = CRCNo
	}
	pb := PrimaryBlock{Version: dtnVersion, CRCType: CRC16, Destination: symEID("", 4, false), SourceNode: symEID("", 1, false), ReportTo: DtnNone(),
		CreationTimestamp: NewCreationTimestamp(DtnTime(tsAlive), 1), Lifetime: 1000}
	b := MustNewBundle(pb, []CanonicalBlock{
		{BlockNumber: 2, CRCType: CRC16, Value: &HopCountBlock{Limit: 9, Count: verif.U8("hc")}},
		{BlockNumber: 1, CRCType: crc, Value: NewPayloadBlock(pl)},
	})
	verif.Assume(b.CheckValid() == nil)
	var w bytes.Buffer
	verif.Assert(b.WriteBundle(&w) == nil, "a valid bundle serialises")
	enc := append([]byte{}, w.Bytes()...)
	b2, err := ParseBundle(&w)
	verif.Assert(err == nil, "own encoding of a valid bundle is accepted")
	verif.Assert(w.Len() == 0, "the parser consumes the whole encoding")
	p2, perr := b2.PayloadBlock()
	verif.Assert(perr == nil && bytes.Equal(p2.Value.(*PayloadBlock).Data(), pl), "the payload survives the round trip at this size")
	verif.Assert(primaryEqual(b.PrimaryBlock, b2.PrimaryBlock) && len(b2.CanonicalBlocks) == 2, "primary block and block list survive")
	var w2 bytes.Buffer
	verif.Assert(b2.WriteBundle(&w2) == nil && bytes.Equal(enc, w2.Bytes()), "re-serialisation is byte-identical")
	verif.Reach("end")
}

// failAfter is a writer that accepts n bytes and then fails.
type failAfter struct{ n int }

func (f *failAfter) Write(p []byte) (int, error) {
	if len(p) > f.n {
		k := f.n
		f.n = 0
		return k, errWriteFailed
	}
	f.n -= len(p)
	return len(p), nil
}

var errWriteFailed = errors.New("write failed")

// H01_AfterFailure: serialisation is deterministic - it does not depend on what was serialised before: a bundle is
// first written into a writer that fails after N bytes (every N up to the length of the encoding), or a bundle that
// cannot be serialised is attempted; then a valid bundle with CRCs on its blocks is serialised: the bytes are the same
// as those of a first serialisation and the parser accepts them.
func H01_AfterFailure() {
	registerRoutingBlocks()
	b := tmplCRCBundle(verif.Choose("tmpl", 4))
	ref := serialised(b)
	if verif.Bool("invalid") {
		bad := tmplCRCBundle(1)
		bad.CanonicalBlocks[0].Value = NewPreviousNodeBlock(EndpointID{})
		bad.CanonicalBlocks[0].CRCType = CRC32
		_ = bad.WriteBundle(&bytes.Buffer{})
	} else {
		n := verif.Size("n", 0, len(ref))
		_ = b.WriteBundle(&failAfter{n})
	}
	again := serialised(b)
	verif.Assert(bytes.Equal(again, ref), "the same bundle serialises to the same bytes whatever was serialised before")
	_, err := ParseBundle(bytes.NewReader(again))
	verif.Assert(err == nil, "and the parser accepts them")
	other := serialised(tmplCRCBundle(verif.Choose("other", 4)))
	_, err = ParseBundle(bytes.NewReader(other))
	verif.Assert(err == nil, "another bundle serialised afterwards is accepted as well")
	verif.Reach("end")
}
