//go:build verif

package bpv7

import (
	"bytes"
	"hash/crc32"

	verif "github.com/dtn7/dtn7-go/pkg/zzverif"
	"github.com/howeyc/crc16"
)

// Reference CRCs written from the specification (bitwise, reflected): CRC-16/X-25 (poly 0x1021 reflected = 0x8408,
// init 0xFFFF, xorout 0xFFFF) and CRC-32C (Castagnoli 0x1EDC6F41 reflected = 0x82F63B78, init/xorout all ones).
func refCRC16(crc uint16, p []byte) uint16 {
	crc = ^crc
	for _, v := range p {
		crc ^= uint16(v)
		for k := 0; k < 8; k++ {
			crc = (crc >> 1) ^ (0x8408 & -(crc & 1))
		}
	}
	return ^crc
}

func refCRC32C(crc uint32, p []byte) uint32 {
	crc = ^crc
	for _, v := range p {
		crc ^= uint32(v)
		for k := 0; k < 8; k++ {
			crc = (crc >> 1) ^ (0x82F63B78 & -(crc & 1))
		}
	}
	return ^crc
}

// H03a_Step16 / H03a_Step32: on the real table-driven code with the tables bpv7 actually uses: one update step from an
// arbitrary state with an arbitrary byte equals the specification's eight bitwise steps. One inductive step from
// an arbitrary pre-state covers buffers of every length.
func H03a_Step16() {
	c := verif.U16("state")
	b := verif.U8("byte")
	got := crc16.Update(c, crc16table, []byte{b})
	verif.Assert(got == refCRC16(c, []byte{b}), "crc16: table step equals the X-25 bitwise definition for every state and byte")
	verif.Reach("end")
}

func H03a_Step32() {
	c := verif.U32("state")
	b := verif.U8("byte")
	got := crc32.Update(c, crc32table, []byte{b})
	verif.Assert(got == refCRC32C(c, []byte{b}), "crc32: table step equals the Castagnoli bitwise definition for every state and byte")
	verif.Reach("end")
}

// H03a_Compose: Update over p followed by q equals Update over p||q (so whole-buffer checksums are the fold of the
// step), Checksum starts from the zero "crc" (= all-ones register), and the published check values hold.
func H03a_Compose() {
	c16 := verif.U16("c16")
	c32 := verif.U32("c32")
	np := verif.Size("np", 0, 2)
	nq := verif.Size("nq", 0, 2)
	p := verif.Bytes("p", np)
	q := verif.Bytes("q", nq)
	pq := append(append([]byte{}, p...), q...)
	verif.Assert(crc16.Update(crc16.Update(c16, crc16table, p), crc16table, q) == crc16.Update(c16, crc16table, pq), "crc16: update composes")
	verif.Assert(crc32.Update(crc32.Update(c32, crc32table, p), crc32table, q) == crc32.Update(c32, crc32table, pq), "crc32: update composes")
	verif.Assert(crc16.Checksum(pq, crc16table) == crc16.Update(0, crc16table, pq), "crc16: checksum = update from 0")
	verif.Assert(crc32.Checksum(pq, crc32table) == crc32.Update(0, crc32table, pq), "crc32: checksum = update from 0")
	verif.Assert(crc16.Checksum([]byte("123456789"), crc16table) == 0x906E, "crc16: X-25 check value 0x906E")
	verif.Assert(crc32.Checksum([]byte("123456789"), crc32table) == 0xE3069283, "crc32: CRC-32C check value 0xE3069283")
	verif.Reach("end")
}

// H03a_Long: buffers of 16..24 bytes (hash/crc32 switches to slicing-by-8 there): agreement with the bitwise
// definition with one arbitrary byte in the tail (the slicing-by-8 kernel itself is the standard library's and is
// exercised here on concrete blocks only).
func H03a_Long() {
	n := 16 + verif.Choose("extra", verif.Param("extras", 1))
	buf := make([]byte, n)
	for i := range buf {
		buf[i] = byte(i*7 + 1)
	}
	buf[n-1] = verif.U8("x")
	verif.Assert(crc32.Checksum(buf, crc32table) == refCRC32C(0, buf), "crc32: long-buffer path equals the bitwise definition")
	verif.Assert(crc16.Checksum(buf, crc16table) == refCRC16(0, buf), "crc16: long buffer equals the bitwise definition")
	verif.Reach("end")
}

// H03a_Buff: calculateCRCBuff appends the zeroed CRC field (as a CBOR byte string: 0x42 00 00 / 0x44 00 00 00 00) to
// the block bytes and returns the big-endian checksum of exactly those bytes. Together with the step lemma and
// composition this is "the CRC per specification over the block with the CRC field zeroed".
func H03a_Buff() {
	n := verif.Size("n", 0, 4)
	data := verif.Bytes("data", n)
	t := CRCType(1 + verif.Choose("type", 2))
	buf := bytes.NewBuffer(append([]byte{}, data...))
	got, err := calculateCRCBuff(buf, t)
	verif.Assert(err == nil, "calculateCRCBuff: no error for CRC-16/32")
	if t == CRC16 {
		ref := crc16.Update(0, crc16table, append(append([]byte{}, data...), 0x42, 0, 0))
		verif.Assert(len(got) == 2 && got[0] == byte(ref>>8) && got[1] == byte(ref), "calculateCRCBuff: CRC-16 over block bytes with zeroed field, big endian")
	} else {
		ref := crc32.Update(0, crc32table, append(append([]byte{}, data...), 0x44, 0, 0, 0, 0))
		verif.Assert(len(got) == 4 && got[0] == byte(ref>>24) && got[1] == byte(ref>>16) && got[2] == byte(ref>>8) && got[3] == byte(ref), "calculateCRCBuff: CRC-32C over block bytes with zeroed field, big endian")
	}
	_, err = calculateCRCBuff(bytes.NewBuffer(nil), CRCType(3+verif.Choose("bad", 3)))
	verif.Assert(err != nil, "calculateCRCBuff: unknown CRC types are an error")
	verif.Reach("end")
}

// crcOver computes, independently of the parser, the CRC of a received block: the block's bytes with the CRC value
// bytes (the last n) zeroed.
func crcOver(block []byte, t CRCType) []byte {
	n := 2
	if t == CRC32 {
		n = 4
	}
	z := append([]byte{}, block...)
	for i := len(z) - n; i < len(z); i++ {
		z[i] = 0
	}
	if t == CRC16 {
		c := crc16.Checksum(z, crc16table)
		return []byte{byte(c >> 8), byte(c)}
	}
	c := crc32.Checksum(z, crc32table)
	return []byte{byte(c >> 24), byte(c >> 16), byte(c >> 8), byte(c)}
}

// H03b_FramingPrimary: the real serialisation of a symbolic primary block in which the CRC value bytes are replaced
// by arbitrary bytes: accepted <=> value = CRC(received block bytes with the value zeroed); and the serialiser
// writes exactly that value. (CRC as an uninterpreted function: holds for every function, hence for the real one.)
func H03b_FramingPrimary() {
	pb := symPrimarySmall(true, 2)
	pb.CRCType = CRCType(1 + verif.Choose("t", 2))
	var w bytes.Buffer
	verif.Assume(pb.MarshalCbor(&w) == nil)
	enc := append([]byte{}, w.Bytes()...)
	n := 2
	if pb.CRCType == CRC32 {
		n = 4
	}
	want := crcOver(enc, pb.CRCType)
	verif.Assert(bytes.Equal(enc[len(enc)-n:], want), "primary: serialiser writes the CRC of the block bytes with a zeroed field")
	val := verif.Bytes("val", n)
	in := append([]byte{}, enc...)
	copy(in[len(in)-n:], val)
	var pb2 PrimaryBlock
	err := pb2.UnmarshalCbor(bytes.NewReader(in))
	verif.Assert(verif.Iff(err == nil, bytes.Equal(val, want)), "primary: accepted iff the transmitted value is the CRC of the received bytes")
	verif.Reach("end")
}

// H03b_FramingCanonical: the same for canonical blocks of each kind.
func H03b_FramingCanonical() {
	registerRoutingBlocks()
	kind := verif.Choose("kind", 9)
	cb := CanonicalBlock{
		BlockNumber:       symU64w("bn", false),
		BlockControlFlags: BlockControlFlags(symU64w("bcf", false)),
		CRCType:           CRCType(1 + verif.Choose("t", 2)),
		Value:             symBlockValue("v", kind, false),
	}
	var w bytes.Buffer
	verif.Assume(cb.MarshalCbor(&w) == nil)
	enc := append([]byte{}, w.Bytes()...)
	n := 2
	if cb.CRCType == CRC32 {
		n = 4
	}
	want := crcOver(enc, cb.CRCType)
	verif.Assert(bytes.Equal(enc[len(enc)-n:], want), "canonical: serialiser writes the CRC of the block bytes with a zeroed field")
	val := verif.Bytes("val", n)
	in := append([]byte{}, enc...)
	copy(in[len(in)-n:], val)
	var cb2 CanonicalBlock
	err := cb2.UnmarshalCbor(bytes.NewReader(in))
	verif.Assert(verif.Iff(err == nil, bytes.Equal(val, want)), "canonical: accepted iff the transmitted value is the CRC of the received bytes")
	verif.Reach("end")
}

// H03b_DeclaredPrimary / H03b_DeclaredCanonical: a block that declares a CRC (type 16/32, or an unknown type) is
// accepted only with a verified CRC value: an encoding whose array length leaves the CRC field out must be rejected.
func H03b_DeclaredPrimary() {
	pb := symPrimarySmall(true, 1)
	pb.BundleControlFlags = BundleControlFlags(uint64(pb.BundleControlFlags) & 23) // one-byte flags: CRC type at a fixed offset
	pb.CRCType = CRCNo
	var w bytes.Buffer
	verif.Assume(pb.MarshalCbor(&w) == nil)
	enc := append([]byte{}, w.Bytes()...)
	// layout: 0x88|0x8a, 0x07, flags (1 byte), CRC type (1 byte)
	verif.Assert(enc[3] == 0, "layout: CRC type byte")
	t := verif.U8("t")
	verif.Assume(t >= 1 && t < 24)
	enc[3] = t
	var pb2 PrimaryBlock
	err := pb2.UnmarshalCbor(bytes.NewReader(enc))
	verif.Assert(err != nil, "primary: declares a CRC but carries none: must be rejected")
	verif.Reach("end")
}

func H03b_DeclaredCanonical() {
	cb := CanonicalBlock{BlockNumber: 2, CRCType: CRCNo, Value: NewBundleAgeBlock(symU64w("age", false))}
	var w2 bytes.Buffer
	verif.Assume(cb.MarshalCbor(&w2) == nil)
	enc2 := append([]byte{}, w2.Bytes()...)
	// layout: 0x85, type, number, flags, CRC type
	verif.Assert(enc2[4] == 0, "layout: canonical CRC type byte")
	t := verif.U8("t")
	verif.Assume(t >= 1 && t < 24)
	enc2[4] = t
	var cb2 CanonicalBlock
	err2 := cb2.UnmarshalCbor(bytes.NewReader(enc2))
	verif.Assert(err2 != nil, "canonical: declares a CRC but carries none: must be rejected")
	verif.Reach("end")
}

// H03b_Created: a created primary block always carries a CRC, whatever type is requested.
func H03b_Created() {
	pb := symPrimarySmall(true, 2)
	npb := NewPrimaryBlock(pb.BundleControlFlags, pb.Destination, pb.SourceNode, pb.CreationTimestamp, pb.Lifetime)
	verif.Assert(npb.HasCRC(), "NewPrimaryBlock carries a CRC")
	npb.SetCRCType(CRCType(verif.Choose("set", 3)))
	verif.Assert(npb.HasCRC(), "SetCRCType never leaves a created primary block without CRC")
	var w bytes.Buffer
	verif.Assume(npb.MarshalCbor(&w) == nil)
	enc := w.Bytes()
	n := 2
	if npb.CRCType == CRC32 {
		n = 4
	}
	verif.Assert(bytes.Equal(enc[len(enc)-n:], crcOver(enc, npb.CRCType)), "created primary block is written with its CRC")
	verif.Reach("end")
}

// tmplCRCBundle: concrete bundles with a CRC on every block.
func tmplCRCBundle(which int) Bundle {
	b := tmplBundle(which % 2)
	t := CRC16
	if which >= 2 {
		t = CRC32
	}
	b.PrimaryBlock.CRCType = t
	for i := range b.CanonicalBlocks {
		b.CanonicalBlocks[i].CRCType = t
	}
	return b
}

// H03c_Flip: every single-bit change of a fully CRC-protected bundle is rejected (exact CRC, bitwise encoding).
func H03c_Flip() {
	t := tmplCRCBundle(verif.Choose("tmpl", 4))
	var w bytes.Buffer
	if t.WriteBundle(&w) != nil {
		verif.Assert(false, "template serialises")
		return
	}
	enc := w.Bytes()
	if _, err := ParseBundle(bytes.NewReader(enc)); err != nil {
		verif.Assert(false, "template is accepted")
		return
	}
	pos := verif.Size("pos", 0, len(enc)-1)
	bit := verif.U8("bit")
	verif.Assume(bit < 8)
	in := append([]byte{}, enc...)
	in[pos] ^= 1 << bit
	verif.InputLen(len(in))
	verif.Observe("in", in)
	_, err := ParseBundle(bytes.NewReader(in))
	verif.Assert(err != nil, "single-bit change of a CRC-protected bundle is rejected")
	verif.Reach("end")
}

// H03c_Burst: a burst of changed bits no longer than the CRC width (a non-zero pattern XORed over w consecutive
// bytes inside one block's content, leaving every CBOR header byte as it was) is rejected.
func H03c_Burst() {
	which := verif.Param("tmpl", -1) // one template per configuration entry
	if which < 0 {
		which = verif.Choose("tmpl", 4)
	}
	t := tmplCRCBundle(which)
	var w bytes.Buffer
	if t.WriteBundle(&w) != nil {
		verif.Assert(false, "template serialises")
		return
	}
	enc := w.Bytes()
	width := 2
	if which >= 2 {
		width = 4
	}
	if mw := verif.Param("maxwidth", 0); mw > 0 && width > mw {
		width = mw // bursts shorter than the CRC width (the solver cost of 32-bit bursts is minutes per position)
	}
	pos := verif.Size("pos", 1, len(enc)-1-width)
	if shards := verif.Param("shards", 1); shards > 1 {
		verif.Assume(pos%shards == verif.Param("shard", 0))
	}
	pat := verif.Bytes("pat", width)
	nz := false
	for _, p := range pat {
		nz = verif.Or(nz, p != 0)
	}
	verif.Assume(nz)
	in := append([]byte{}, enc...)
	for i := 0; i < width; i++ {
		in[pos+i] ^= pat[i]
	}
	verif.InputLen(len(in))
	verif.Observe("in", in)
	_, err := ParseBundle(bytes.NewReader(in))
	verif.Assert(err != nil, "burst no longer than the CRC width is rejected")
	verif.Reach("end")
}

// H03b_FieldLength: the CRC field is a byte string whose length is not fixed by the framing: for a primary block and
// for canonical blocks the field of a correct encoding is replaced by a byte string of 0..5 arbitrary bytes (the rest
// of the encoding unchanged): the block is accepted only if the field has exactly the width of the declared CRC type
// and its value equals the CRC of the received bytes - surplus, missing or padded bytes are rejected. (A field of
// another length changes the bytes the CRC covers, so the expected value is computed over the encoding with a zeroed
// field of the correct width - which is what a correct decoder can only ever accept.)
func H03b_FieldLength() {
	registerRoutingBlocks()
	primary := verif.Bool("primary")
	t := CRCType(1 + verif.Choose("t", 2))
	var enc []byte
	if primary {
		pb := symPrimarySmall(true, 2)
		pb.CRCType = t
		var w bytes.Buffer
		verif.Assume(pb.MarshalCbor(&w) == nil)
		enc = append([]byte{}, w.Bytes()...)
	} else {
		cb := CanonicalBlock{BlockNumber: symU64w("bn", false), BlockControlFlags: BlockControlFlags(symU64w("bcf", false)), CRCType: t,
			Value: symBlockValue("v", verif.Choose("kind", 3), false)}
		var w bytes.Buffer
		verif.Assume(cb.MarshalCbor(&w) == nil)
		enc = append([]byte{}, w.Bytes()...)
	}
	n := 2
	if t == CRC32 {
		n = 4
	}
	want := crcOver(enc, t)
	verif.Assert(enc[len(enc)-n-1] == byte(0x40+n), "layout: the CRC field is the trailing byte string")
	l := verif.Size("fieldlen", 0, 5)
	val := verif.Bytes("val", l)
	in := append([]byte{}, enc[:len(enc)-n-1]...)
	in = append(in, byte(0x40+l))
	in = append(in, val...)
	var err error
	if primary {
		var pb2 PrimaryBlock
		err = pb2.UnmarshalCbor(bytes.NewReader(in))
	} else {
		var cb2 CanonicalBlock
		err = cb2.UnmarshalCbor(bytes.NewReader(in))
	}
	if l != n {
		verif.Assert(err != nil, "a CRC field whose length is not the width of the declared CRC type is rejected")
	} else {
		verif.Assert(verif.Iff(err == nil, bytes.Equal(val, want)), "accepted iff the transmitted value is the CRC of the received bytes")
	}
	verif.Reach("end")
}
