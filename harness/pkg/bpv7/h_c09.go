//go:build verif

package bpv7

import (
	"bytes"

	verif "github.com/dtn7/dtn7-go/pkg/zzverif"
)

// symFragBundle: the bundle family for fragmentation: payload of n symbolic bytes; 0..2 extension blocks (hop count,
// bundle age, previous node, unknown type) with or without the replicate flag, with non-consecutive block numbers;
// CRC pattern per bundle; endpoint forms; flags from a set without must-not-fragment unless asked.
func symFragBundle(n int, variant int) Bundle {
	pb := PrimaryBlock{Version: dtnVersion, CreationTimestamp: NewCreationTimestamp(DtnTime(tsAlive), symU64w("seq", false)), Lifetime: 1000}
	var cbs []CanonicalBlock
	pcrc := CRCNo
	switch variant {
	case 0: // plain, no extension blocks, no CRC on payload
		pb.CRCType = CRC32
		pb.Destination, pb.SourceNode, pb.ReportTo = symEID("", 4, false), symEID("", 1, false), symEID("", 1, false)
		pb.BundleControlFlags = StatusRequestDelivery
	case 1: // two extension blocks, one replicated, numbers 3 and 7, CRC-16 everywhere, ipn endpoints
		pb.CRCType = CRC16
		pcrc = CRC16
		pb.Destination, pb.SourceNode, pb.ReportTo = symEID("", 5, false), EndpointID{IpnEndpoint{Node: 23, Service: 42}}, symEID("", 5, false)
		cbs = append(cbs, CanonicalBlock{BlockNumber: 3, BlockControlFlags: ReplicateBlock, CRCType: CRC16, Value: &HopCountBlock{Limit: 9, Count: verif.U8("hc")}})
		cbs = append(cbs, CanonicalBlock{BlockNumber: 7, CRCType: CRC16, Value: NewBundleAgeBlock(symU64w("age", false))})
	case 2: // previous node (not replicated) + unknown block (replicated), consecutive numbers, mixed CRC
		pb.CRCType = CRC32
		pcrc = CRC32
		pb.Destination, pb.SourceNode, pb.ReportTo = symEID("", 1, false), symEID("", 4, false), DtnNone()
		cbs = append(cbs, CanonicalBlock{BlockNumber: 2, Value: NewPreviousNodeBlock(symEID("", 5, false))})
		cbs = append(cbs, CanonicalBlock{BlockNumber: 3, BlockControlFlags: ReplicateBlock | RemoveBlock, CRCType: CRC16, Value: NewGenericExtensionBlock(verif.Bytes("gd", 2), 77)})
	case 4: // CRC-32 on every block (no slack in the size estimate), a large extension block that is not replicated
		pb.CRCType = CRC32
		pcrc = CRC32
		pb.Destination, pb.SourceNode, pb.ReportTo = symEID("", 1, false), symEID("", 1, false), symEID("", 1, false)
		cbs = append(cbs, CanonicalBlock{BlockNumber: 2, CRCType: CRC32, Value: NewGenericExtensionBlock(make([]byte, 70), 200)})
		cbs = append(cbs, CanonicalBlock{BlockNumber: 3, BlockControlFlags: ReplicateBlock, CRCType: CRC32, Value: &HopCountBlock{Limit: 9, Count: 1}})
	case 3: // must not fragment
		pb.CRCType = CRC32
		pb.Destination, pb.SourceNode, pb.ReportTo = symEID("", 4, false), symEID("", 1, false), symEID("", 1, false)
		pb.BundleControlFlags = MustNotFragmented
	}
	cbs = append(cbs, CanonicalBlock{BlockNumber: 1, BlockControlFlags: BlockControlFlags(symU64w("pbcf", false)), CRCType: pcrc, Value: NewPayloadBlock(verif.Bytes("pl", n))})
	return MustNewBundle(pb, cbs)
}

func serialised(b Bundle) []byte {
	var w bytes.Buffer
	if err := b.WriteBundle(&w); err != nil {
		verif.Assert(false, "bundle serialises")
	}
	return append([]byte{}, w.Bytes()...)
}

func payloadOf(b Bundle) []byte {
	p, err := b.PayloadBlock()
	if err != nil {
		verif.Assert(false, "bundle has a payload block")
		return nil
	}
	return p.Value.(*PayloadBlock).Data()
}

// checkFragments: the per-fragment and partition obligations of C09.
func checkFragments(b Bundle, fs []Bundle, mtu int, orig []byte) {
	total := len(payloadOf(b))
	next := 0
	for i, f := range fs {
		enc := serialised(f)
		verif.Assert(len(enc) <= mtu, "each fragment serialises to at most the limit")
		fp, bp := f.PrimaryBlock, b.PrimaryBlock
		verif.Assert(verif.And(fp.SourceNode == bp.SourceNode, fp.CreationTimestamp == bp.CreationTimestamp, fp.Destination == bp.Destination,
			fp.ReportTo == bp.ReportTo, fp.Lifetime == bp.Lifetime), "fragment keeps source, timestamp, destination, report-to, lifetime")
		verif.Assert(fp.BundleControlFlags.Has(IsFragment), "fragment carries the fragment flag")
		verif.Assert(fp.TotalDataLength == uint64(total), "total length equals the original payload length")
		verif.Assert(fp.FragmentOffset == uint64(next), "offsets partition the payload without gap or overlap")
		d := payloadOf(f)
		verif.Assert(len(d) > 0, "no empty fragment")
		verif.Assert(next+len(d) <= total && bytes.Equal(d, payloadOf(b)[next:next+len(d)]), "fragment payload is the matching slice of the original")
		next += len(d)
		// extension blocks
		for _, cb := range b.CanonicalBlocks {
			if cb.TypeCode() == ExtBlockTypePayloadBlock {
				continue
			}
			want := i == 0 || cb.BlockControlFlags.Has(ReplicateBlock)
			got, err := f.ExtensionBlock(cb.TypeCode())
			verif.Assert((err == nil) == want, "first fragment carries all extension blocks, the others the replicated ones")
			if err == nil {
				verif.Assert(verif.And(got.BlockControlFlags == cb.BlockControlFlags, extValueEqual(0, cb.Value, got.Value)), "extension block content unchanged in the fragment")
			}
		}
		_, perr := ParseBundle(bytes.NewReader(enc))
		verif.Assert(perr == nil, "each fragment is accepted by the parser")
	}
	verif.Assert(next == total, "fragments cover the whole payload")
}

var fragSizes = []int{0, 1, 2, 9, 16, 24, 40, 70}

// H09_Fragment: every (payload size, limit) pair in the bound is its own symbolic path (contents stay symbolic).
func H09_Fragment() {
	variant := verif.Choose("variant", 5)
	n := fragSizes[verif.Choose("nidx", verif.Param("nsizes", 6))]
	b := symFragBundle(n, variant)
	verif.Assume(b.CheckValid() == nil)
	orig := serialised(b)
	lo := verif.Param("mtulo", 0)
	mtu := verif.Size("mtu", lo, len(orig)+2)
	fs, err := b.Fragment(mtu)
	if err != nil {
		verif.Reach("refused")
		verif.Assert(len(orig) > mtu || variant == 3, "a bundle that fits is not refused (unless it must not be fragmented)")
		return
	}
	verif.Assert(variant != 3, "a must-not-fragment bundle is refused")
	verif.Assert(len(fs) > 0, "never an empty list")
	if len(orig) <= mtu {
		verif.Reach("fits")
		verif.Assert(len(fs) == 1 && bytes.Equal(serialised(fs[0]), orig), "a bundle that already fits is returned as itself")
		return
	}
	verif.Reach("fragmented")
	checkFragments(b, fs, mtu, orig)
	// reassembly in the given order and in reverse order
	for _, rev := range []bool{false, true} {
		in := append([]Bundle{}, fs...)
		if rev {
			for i, j := 0, len(in)-1; i < j; i, j = i+1, j-1 {
				in[i], in[j] = in[j], in[i]
			}
		}
		r, rerr := ReassembleFragments(in)
		verif.Assert(rerr == nil, "reassembling all fragments succeeds")
		verif.Assert(bytes.Equal(serialised(r), orig), "reassembled bundle serialises byte-identically to the original")
	}
	verif.Reach("end")
}

// H09_HeaderWidth: limits at which the CBOR header of the payload byte string changes width (255/256): a 600-byte
// payload, CRC-32 on every block (so the size estimate has no slack), a 150-byte extension block that is not
// replicated and a small replicated one; the limit sweeps the window in which later fragments carry >= 256 bytes
// while the first one carries fewer. The sweep is split into shards (one worker each).
func H09_HeaderWidth() {
	pb := PrimaryBlock{Version: dtnVersion, CRCType: CRC32, CreationTimestamp: NewCreationTimestamp(DtnTime(tsAlive), 1), Lifetime: 1000}
	pb.Destination, pb.SourceNode, pb.ReportTo = symEID("", 1, false), symEID("", 1, false), symEID("", 1, false)
	payload := make([]byte, 600)
	copy(payload[250:], verif.Bytes("pl", 12)) // symbolic bytes around the first 256-byte boundary
	cbs := []CanonicalBlock{
		{BlockNumber: 2, CRCType: CRC32, Value: NewGenericExtensionBlock(make([]byte, 150), 200)},
		{BlockNumber: 3, BlockControlFlags: ReplicateBlock, CRCType: CRC32, Value: &HopCountBlock{Limit: 9, Count: verif.U8("hc")}},
		{BlockNumber: 1, CRCType: CRC32, Value: NewPayloadBlock(payload)},
	}
	b := MustNewBundle(pb, cbs)
	verif.Assume(b.CheckValid() == nil)
	orig := serialised(b)
	base := len(orig) - 600 // encoded size without payload data
	shards := verif.Param("shards", 4)
	shard := verif.Param("shard", 0)
	k := verif.Size("k", 0, verif.Param("per", 32)-1)
	mtu := base + 180 + shard + shards*k
	fs, err := b.Fragment(mtu)
	if err != nil {
		verif.Reach("refused")
		return
	}
	verif.Reach("fragmented")
	verif.Assert(len(fs) >= 2, "a 600-byte payload does not fit these limits")
	checkFragments(b, fs, mtu, orig)
	r, rerr := ReassembleFragments(append([]Bundle{}, fs...))
	verif.Assert(rerr == nil && bytes.Equal(serialised(r), orig), "reassembly is byte-identical")
	verif.Reach("end")
}

// H09_BlockMix: every mix of the four extension block kinds hop count, bundle age, previous node and an unknown type -
// each absent, present, or present with the replicate flag (81 mixes, so up to four replicated blocks) - with block
// numbers that are not consecutive, a 24-byte symbolic payload, CRC-16 on the extension blocks and every limit from
// "header only" to "fits": the same obligations as H09_Fragment (sizes, partition, extension blocks in the first / in
// every fragment, parser acceptance, byte-identical reassembly in both orders). Split into shards by mix.
func H09_BlockMix() {
	pb := PrimaryBlock{Version: dtnVersion, CRCType: CRC32, CreationTimestamp: NewCreationTimestamp(DtnTime(tsAlive), 1), Lifetime: 1000}
	pb.Destination, pb.SourceNode, pb.ReportTo = symEID("", 4, false), symEID("", 1, false), DtnNone()
	mix := verif.Choose("mix", 81)
	if shards := verif.Param("shards", 1); shards > 1 {
		verif.Assume(mix%shards == verif.Param("shard", 0))
	}
	var cbs []CanonicalBlock
	vals := []ExtensionBlock{&HopCountBlock{Limit: 9, Count: verif.U8("hc")}, NewBundleAgeBlock(symU64w("age", false)),
		NewPreviousNodeBlock(symEID("", 5, false)), NewGenericExtensionBlock(verif.Bytes("gd", 2), 77)}
	numbers := []uint64{9, 3, 6, 4}
	m := mix
	for k := 0; k < 4; k++ {
		switch m % 3 {
		case 1:
			cbs = append(cbs, CanonicalBlock{BlockNumber: numbers[k], CRCType: CRC16, Value: vals[k]})
		case 2:
			cbs = append(cbs, CanonicalBlock{BlockNumber: numbers[k], BlockControlFlags: ReplicateBlock, CRCType: CRC16, Value: vals[k]})
		}
		m /= 3
	}
	n := verif.Param("payload", 24)
	cbs = append(cbs, CanonicalBlock{BlockNumber: 1, Value: NewPayloadBlock(verif.Bytes("pl", n))})
	b := MustNewBundle(pb, cbs)
	verif.Assume(b.CheckValid() == nil)
	orig := serialised(b)
	mtu := verif.Size("mtu", len(orig)-n, len(orig))
	fs, err := b.Fragment(mtu)
	if err != nil {
		verif.Reach("refused")
		verif.Assert(len(orig) > mtu, "a bundle that fits is not refused")
		return
	}
	verif.Assert(len(fs) > 0, "never an empty list")
	if len(orig) <= mtu {
		verif.Assert(len(fs) == 1 && bytes.Equal(serialised(fs[0]), orig), "a bundle that already fits is returned as itself")
		verif.Reach("end")
		return
	}
	verif.Reach("fragmented")
	checkFragments(b, fs, mtu, orig)
	for _, rev := range []bool{false, true} {
		in := append([]Bundle{}, fs...)
		if rev {
			for i, j := 0, len(in)-1; i < j; i, j = i+1, j-1 {
				in[i], in[j] = in[j], in[i]
			}
		}
		r, rerr := ReassembleFragments(in)
		verif.Assert(rerr == nil, "reassembling all fragments succeeds")
		verif.Assert(bytes.Equal(serialised(r), orig), "reassembled bundle serialises byte-identically to the original")
	}
	verif.Reach("end")
}

// H09_Large: a payload above 64 KiB (66000 bytes, symbolic bytes at both ends and around offset 65536) with CRC-32 on
// every block and a replicated hop count block: limits at which a fragment carries about 65536 bytes - where the CBOR
// header of the payload byte string grows from three to five bytes - and a small limit that yields about seventy
// fragments: the obligations of H09_Fragment.
func H09_Large() {
	const n = 66000
	pb := PrimaryBlock{Version: dtnVersion, CRCType: CRC32, CreationTimestamp: NewCreationTimestamp(DtnTime(tsAlive), 1), Lifetime: 1000}
	pb.Destination, pb.SourceNode, pb.ReportTo = symEID("", 1, false), symEID("", 1, false), symEID("", 1, false)
	payload := make([]byte, n)
	for i := range payload {
		payload[i] = byte(i*13 + i>>8)
	}
	sym := verif.Bytes("pl", 6)
	copy(payload[0:], sym[0:2])
	copy(payload[65535:], sym[2:4])
	copy(payload[n-2:], sym[4:6])
	cbs := []CanonicalBlock{
		{BlockNumber: 3, BlockControlFlags: ReplicateBlock, CRCType: CRC32, Value: &HopCountBlock{Limit: 9, Count: verif.U8("hc")}},
		{BlockNumber: 1, CRCType: CRC32, Value: NewPayloadBlock(payload)},
	}
	b := MustNewBundle(pb, cbs)
	verif.Assume(b.CheckValid() == nil)
	orig := serialised(b)
	base := len(orig) - n
	k := verif.Size("k", 0, verif.Param("per", 21))
	mtu := 1000
	if k > 0 {
		mtu = base + 65524 + k
	}
	fs, err := b.Fragment(mtu)
	verif.Assert(err == nil && len(fs) >= 2, "a 66000-byte payload is fragmented at these limits")
	if err != nil {
		return
	}
	checkFragments(b, fs, mtu, orig)
	r, rerr := ReassembleFragments(append([]Bundle{}, fs...))
	verif.Assert(rerr == nil && bytes.Equal(serialised(r), orig), "reassembly is byte-identical")
	verif.Reach("end")
}
