//go:build verif

package bpv7

import (
	"bytes"

	verif "github.com/dtn7/dtn7-go/pkg/zzverif"
)

func bidEqual(a, b BundleID) bool {
	return verif.And(a.SourceNode == b.SourceNode, a.Timestamp == b.Timestamp, a.IsFragment == b.IsFragment,
		verif.Implies(a.IsFragment, verif.And(a.FragmentOffset == b.FragmentOffset, a.TotalDataLength == b.TotalDataLength)))
}

// H17_BundleID: both forms of the bundle ID (whole bundle / fragment), all endpoint forms, one wide field at a time.
func H17_BundleID() {
	wide := verif.Choose("wide", 4)
	id := BundleID{SourceNode: symEID("src", verif.Choose("srck", 5), wide == 0), Timestamp: NewCreationTimestamp(DtnTime(symU64w("ts", wide == 1)), symU64w("seq", wide == 2)),
		IsFragment: verif.Bool("frag")}
	if id.IsFragment {
		id.FragmentOffset, id.TotalDataLength = symU64w("off", wide == 3), symU64w("tot", wide == 3)
	}
	var w bytes.Buffer
	verif.Assume(id.MarshalCbor(&w) == nil)
	n := w.Len()
	garbage := verif.Bytes("garbage", 2)
	w.Write(garbage)
	id2 := BundleID{IsFragment: id.IsFragment}
	verif.Assert(id2.UnmarshalCbor(&w) == nil, "bundle ID: own encoding accepted")
	verif.Assert(bidEqual(id, id2), "bundle ID decodes to an equal value")
	verif.Assert(bytes.Equal(w.Bytes(), garbage) && n > 0, "bundle ID: decoder consumes exactly the encoding")
	verif.Reach("end")
}

// H17_StatusReport: status reports built by NewStatusReport for every position, time flag, fragment or not, and raw
// status item combinations; through the administrative-record wrapper; stream stays aligned.
func H17_StatusReport() {
	ref := tmplBundle(verif.Choose("ref", 2))
	if verif.Bool("time") {
		ref.PrimaryBlock.BundleControlFlags |= RequestStatusTime
	}
	ref.PrimaryBlock.CreationTimestamp = NewCreationTimestamp(DtnTime(symU64w("rts", false)), symU64w("rseq", false))
	sr := NewStatusReport(ref, StatusInformationPos(verif.Choose("pos", 4)), StatusReportReason(symU64w("reason", true)), DtnTime(symU64w("t", false)))
	if verif.Bool("raw") {
		// arbitrary item combinations in canonical form (a time only on an asserted, time-requesting item)
		for i := range sr.StatusInformation {
			if verif.Bool(nm("as", i)) {
				if verif.Bool(nm("tr", i)) {
					sr.StatusInformation[i] = NewTimeReportingBundleStatusItem(DtnTime(symU64w(nm("it", i), false)))
				} else {
					sr.StatusInformation[i] = NewBundleStatusItem(true)
				}
			} else {
				sr.StatusInformation[i] = NewBundleStatusItem(false)
			}
		}
	}
	var w bytes.Buffer
	verif.Assert(GetAdministrativeRecordManager().WriteAdministrativeRecord(sr, &w) == nil, "status report serialises")
	garbage := verif.Bytes("garbage", 2)
	w.Write(garbage)
	ar, err := GetAdministrativeRecordManager().ReadAdministrativeRecord(&w)
	verif.Assert(err == nil, "status report: own encoding accepted")
	sr2, ok := ar.(*StatusReport)
	verif.Assert(ok, "administrative record decodes as a status report")
	verif.Assert(len(sr2.StatusInformation) == len(sr.StatusInformation), "same number of status items")
	eq := verif.And(sr2.ReportReason == sr.ReportReason, bidEqual(sr.RefBundle, sr2.RefBundle))
	for i := range sr.StatusInformation {
		a, b := sr.StatusInformation[i], sr2.StatusInformation[i]
		eq = verif.And(eq, a.Asserted == b.Asserted, a.StatusRequested == b.StatusRequested, verif.Implies(a.StatusRequested, a.Time == b.Time))
	}
	verif.Assert(eq, "status report decodes to an equal value")
	verif.Assert(bytes.Equal(w.Bytes(), garbage), "status report: decoder consumes exactly the encoding")
	verif.Reach("end")
}

// H17_EndpointCbor: endpoint IDs in CBOR form, all forms, symbolic text and numbers.
func H17_EndpointCbor() {
	e := symEID("e", verif.Choose("kind", 6), true)
	var w bytes.Buffer
	verif.Assume(e.MarshalCbor(&w) == nil)
	garbage := verif.Bytes("garbage", 2)
	w.Write(garbage)
	var e2 EndpointID
	verif.Assert(e2.UnmarshalCbor(&w) == nil, "endpoint: own CBOR encoding accepted")
	verif.Assert(e == e2, "endpoint decodes to an equal value")
	verif.Assert(bytes.Equal(w.Bytes(), garbage), "endpoint: decoder consumes exactly the encoding")
	verif.Reach("end")
}

// refURI: reference recogniser of the dtn and ipn URI grammars (demux: any text without a line break).
// Returns (valid, isDtnNone). Numbers of ipn URIs are limited to three digits here.
func isDigit(c byte) bool { return verif.And(c >= '0', c <= '9') }

func refDtnURI(s string) bool {
	if len(s) < 4 || s[0] != 'd' || s[1] != 't' || s[2] != 'n' || s[3] != ':' {
		return false
	}
	ssp := s[4:]
	if len(ssp) == 4 && ssp[0] == 'n' && ssp[1] == 'o' && ssp[2] == 'n' && ssp[3] == 'e' {
		return true
	}
	if len(ssp) < 4 || ssp[0] != '/' || ssp[1] != '/' {
		return false
	}
	// node name: up to the first '/', non-empty, over the class
	i := 2
	for i < len(ssp) && ssp[i] != '/' {
		if !isNodeChar(ssp[i]) {
			return false
		}
		i++
	}
	if i == 2 || i >= len(ssp) {
		return false
	}
	for j := i + 1; j < len(ssp); j++ {
		if ssp[j] == '\n' {
			return false
		}
	}
	return true
}

// H17_EndpointURI: text <-> structure: NewEndpointID(s) for symbolic ASCII s with a fixed scheme prefix: accepted
// exactly when the reference recogniser accepts; an accepted endpoint prints back to the same text, and parsing
// that text again yields an equal endpoint.
func H17_EndpointURI() {
	n := verif.Size("n", 0, verif.Param("maxlen", 5))
	tail := verif.ASCII("tail", n)
	var s string
	switch verif.Choose("prefix", 3) {
	case 0:
		s = "dtn:" + tail
	case 1:
		s = "dtn://" + tail
	case 2:
		s = "ipn:" + tail
	}
	verif.InputLen(len(s))
	e, err := NewEndpointID(s)
	if s[0] == 'd' {
		verif.Assert((err == nil) == refDtnURI(s), "dtn URI accepted exactly per the grammar")
	}
	if err != nil {
		verif.Reach("rejected")
		return
	}
	verif.Reach("accepted")
	verif.Assert(e.CheckValid() == nil, "accepted endpoint is valid")
	if ipn, ok := e.EndpointType.(IpnEndpoint); ok {
		verif.Assert(verif.And(ipn.Node >= 1, ipn.Service >= 1), "ipn numbers are at least 1")
	}
	back := e.String()
	e2, err2 := NewEndpointID(back)
	verif.Assert(err2 == nil && e2 == e, "text and structure determine each other: parse(print(e)) == e")
	if s[0] == 'd' {
		verif.Assert(back == s, "a dtn endpoint prints back to the text it was parsed from")
	}
}

// H17_EndpointInjective: two valid dtn endpoints with the same URI text are equal.
func H17_EndpointInjective() {
	a := symEID("a", 2, false)
	b := symEID("b", 2, false)
	if a.String() == b.String() {
		verif.Assert(a == b, "equal URI text implies equal endpoint structure")
		verif.Reach("same")
	}
	verif.Reach("end")
}

// H17_Timestamp: creation timestamps, both fields over all 2^64 values.
func H17_Timestamp() {
	ct := NewCreationTimestamp(DtnTime(verif.U64("t")), verif.U64("s"))
	var w bytes.Buffer
	verif.Assert(ct.MarshalCbor(&w) == nil, "timestamp serialises")
	garbage := verif.Bytes("garbage", 1)
	w.Write(garbage)
	var ct2 CreationTimestamp
	verif.Assert(ct2.UnmarshalCbor(&w) == nil, "timestamp: own encoding accepted")
	verif.Assert(ct2 == ct, "timestamp decodes to an equal value")
	verif.Assert(bytes.Equal(w.Bytes(), garbage), "timestamp: decoder consumes exactly the encoding")
	verif.Reach("end")
}
