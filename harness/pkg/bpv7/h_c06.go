//go:build verif

package bpv7

import (
	"time"

	verif "github.com/dtn7/dtn7-go/pkg/zzverif"
)

// H06_Hop: the forwarder's sequence on a received hop-count block (count <= limit): Increment, IsExceeded, later
// Decrement - over the full 256x256 square: refused <=> count+1 > limit (mathematically); otherwise the transmitted
// count is count+1 and the count after Decrement is the received one.
func H06_Hop() {
	l := verif.U8("limit")
	c := verif.U8("count")
	verif.Assume(c <= l)
	h := &HopCountBlock{Limit: l, Count: c}
	exceeded := h.Increment()
	verif.Assert(exceeded == (uint16(c)+1 > uint16(l)), "hop limit: refused exactly when count+1 exceeds the limit")
	if !exceeded {
		verif.Assert(uint16(h.Count) == uint16(c)+1, "hop count transmitted is exactly one higher than received")
		verif.Assert(h.CheckValid() == nil, "incremented block is valid")
		h.Decrement() // the forwarder resets the shared in-memory block after the send
		verif.Assert(h.Count == c, "hop count restored after the send")
	}
	verif.Reach("end")
}

// H06_Lifetime: Bundle.IsLifetimeExceeded against the oracle, for symbolic creation time, lifetime and age; the clock
// is the frozen instant T0 (2009-11-10 23:00:00 UTC = DTN time 311209200000 ms), so the comparison is exact at the
// expiry instant.
func H06_Lifetime() {
	nowMs := uint64(DtnTimeFromTime(time.Now()))
	verif.Assert(nowMs == 311209200000, "frozen clock")
	pb := PrimaryBlock{Version: dtnVersion, CRCType: CRC16, Destination: symEID("", 4, false), SourceNode: symEID("", 1, false), ReportTo: symEID("", 1, false)}
	var cbs []CanonicalBlock
	ts := verif.U64("ts")
	life := verif.U64("life")
	verif.Assume(life < 1<<40) // 34 years; time.Duration overflows beyond 292 years
	if verif.Bool("zero") {
		ts = 0
	} else {
		verif.Assume(ts >= 1 && ts < 1<<42)
	}
	if verif.Bool("hasage") {
		cbs = append(cbs, CanonicalBlock{BlockNumber: 2, Value: NewBundleAgeBlock(verif.U64("age"))})
	}
	cbs = append(cbs, CanonicalBlock{BlockNumber: 1, Value: NewPayloadBlock([]byte("x"))})
	pb.CreationTimestamp = NewCreationTimestamp(DtnTime(ts), 0)
	pb.Lifetime = life
	b := MustNewBundle(pb, cbs)
	verif.Assert(b.IsLifetimeExceeded() == refExpired(b, nowMs), "lifetime run out exactly per creation time, or per age when the creation time is zero")
	verif.Reach("end")
}
