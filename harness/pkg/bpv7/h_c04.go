//go:build verif

package bpv7

import (
	"bytes"

	"github.com/dtn7/cboring"
	verif "github.com/dtn7/dtn7-go/pkg/zzverif"
)

// The C04 harnesses have no explicit assertion: the obligations are the engine's implicit ones (no panic, every
// loop terminates within the instruction budget) and the allocation policy (no make/append sized by a value taken
// from the input above max(1 MiB, 64*len(input))).

func freeInput(def int) *bytes.Reader {
	n := verif.Param("n", def)
	in := verif.Bytes("in", n)
	verif.InputLen(n)
	verif.Observe("in", in)
	return bytes.NewReader(in)
}

func H04_ParseBundleFree() {
	_, err := ParseBundle(freeInput(6))
	if err == nil {
		verif.Reach("accepted")
	}
	verif.Reach("end")
}

func H04_Primary() {
	var pb PrimaryBlock
	_ = pb.UnmarshalCbor(freeInput(8))
	verif.Reach("end")
}

func H04_Canonical() {
	registerRoutingBlocks()
	var cb CanonicalBlock
	_ = cb.UnmarshalCbor(freeInput(8))
	verif.Reach("end")
}

func H04_Endpoint() {
	var e EndpointID
	_ = e.UnmarshalCbor(freeInput(7))
	verif.Reach("end")
}

func H04_BundleID() {
	var id BundleID
	_ = id.UnmarshalCbor(freeInput(8))
	verif.Reach("end")
}

func H04_StatusReport() {
	var sr StatusReport
	_ = sr.UnmarshalCbor(freeInput(6))
	verif.Reach("end")
}

func H04_AdminRecord() {
	_, _ = GetAdministrativeRecordManager().ReadAdministrativeRecord(freeInput(6))
	verif.Reach("end")
}

func H04_ExtBlocks() {
	var r *bytes.Reader
	switch verif.Choose("which", 4) {
	case 0:
		r = freeInput(7)
		var b DTLSRBlock
		_ = b.UnmarshalCbor(r)
	case 1:
		r = freeInput(7)
		var b ProphetBlock
		_ = b.UnmarshalCbor(r)
	case 2:
		r = freeInput(6)
		var b SignatureBlock
		_ = b.UnmarshalCbor(r)
	case 3:
		r = freeInput(6)
		var b HopCountBlock
		_ = b.UnmarshalCbor(r)
	}
	verif.Reach("end")
}

func H04_EndpointString() {
	n := verif.Size("len", 0, verif.Param("maxlen", 7))
	s := verif.ASCII("uri", n)
	verif.InputLen(n)
	_, _ = NewEndpointID(s)
	verif.Reach("end")
}

// H04_RawBytes: cboring.ReadRawBytes is the library's guard for byte and text strings: the declared length is an
// arbitrary 64-bit value.
func H04_RawBytes() {
	l := verif.U64("l")
	n := verif.Param("n", 4)
	verif.InputLen(n)
	_, _ = cboring.ReadRawBytes(l, bytes.NewReader(verif.Bytes("in", n)))
	verif.Reach("end")
}

// adminTemplate: an administrative-record bundle (status report about a fragment) whose encoding is mutated.
func adminTemplate() []byte {
	ref := tmplBundle(1)
	sr := NewStatusReport(ref, ReceivedBundle, NoInformation, DtnTimeEpoch)
	ar, err := Builder().Source("dtn://a/").Destination("dtn://b/").CreationTimestampEpoch().Lifetime("1h").
		BundleAgeBlock(uint64(0)).AdministrativeRecord(sr).Build()
	if err != nil {
		verif.Assert(false, "admin template builds")
		return nil
	}
	ar.SetCRCType(CRCNo)
	ar.PrimaryBlock.CRCType = CRCNo
	return serialised(ar)
}

// H04_AdminWindow: every position of an administrative-record bundle with a window of symbolic bytes, then parsed
// and, if accepted, its administrative record decoded (as the node does on reception).
func H04_AdminWindow() {
	enc := adminTemplate()
	win := verif.Param("window", 1)
	pos := verif.Size("pos", 0, len(enc)-win)
	in := append([]byte{}, enc...)
	copy(in[pos:], verif.Bytes("mut", win))
	verif.InputLen(len(in))
	verif.Observe("in", in)
	b, err := ParseBundle(bytes.NewReader(in))
	if err == nil {
		verif.Reach("accepted")
		if b.IsAdministrativeRecord() {
			_, _ = b.AdministrativeRecord()
		}
	}
	verif.Reach("end")
}

// H04_BundleWindow: the same over the two data bundle templates (all block types the templates carry).
func H04_BundleWindow() {
	registerRoutingBlocks()
	enc := serialised(tmplBundle(verif.Choose("tmpl", 2)))
	win := verif.Param("window", 1)
	pos := verif.Size("pos", 0, len(enc)-win)
	in := append([]byte{}, enc...)
	copy(in[pos:], verif.Bytes("mut", win))
	verif.InputLen(len(in))
	verif.Observe("in", in)
	_, _ = ParseBundle(bytes.NewReader(in))
	verif.Reach("end")
}

// H04_BundleTruncate: every truncation of the template encodings (and of the administrative-record template).
func H04_BundleTruncate() {
	registerRoutingBlocks()
	var enc []byte
	switch verif.Choose("tmpl", 3) {
	case 0:
		enc = serialised(tmplBundle(0))
	case 1:
		enc = serialised(tmplBundle(1))
	default:
		enc = adminTemplate()
	}
	cut := verif.Size("cut", 0, len(enc))
	verif.InputLen(cut)
	b, err := ParseBundle(bytes.NewReader(enc[:cut]))
	verif.Assert((err == nil) == (cut == len(enc)), "only the complete encoding is accepted")
	if err == nil && b.IsAdministrativeRecord() {
		_, _ = b.AdministrativeRecord()
	}
	verif.Reach("end")
}
