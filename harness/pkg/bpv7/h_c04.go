//go:build verif

package bpv7

import (
	"bytes"
	"io"

	"github.com/dtn7/cboring"
	verif "github.com/dtn7/dtn7-go/pkg/zzverif"
)

// The C04 harnesses have no explicit assertion: the obligations are the engine's implicit ones (no panic, every
// loop terminates within the instruction budget) and the allocation policy (no make/append sized by a value taken
// from the input above max(1 MiB, 64*len(input))).

func freeInput(def int) *bytes.Reader {
	n := verif.Param("n", def)
	in := verif.Bytes("in", n)
	verif.InputLen(n)
	verif.Observe("in", in)
	return bytes.NewReader(in)
}

func H04_ParseBundleFree() {
	_, err := ParseBundle(freeInput(6))
	if err == nil {
		verif.Reach("accepted")
	}
	verif.Reach("end")
}

func H04_Primary() {
	var pb PrimaryBlock
	_ = pb.UnmarshalCbor(freeInput(8))
	verif.Reach("end")
}

func H04_Canonical() {
	registerRoutingBlocks()
	var cb CanonicalBlock
	_ = cb.UnmarshalCbor(freeInput(8))
	verif.Reach("end")
}

func H04_Endpoint() {
	var e EndpointID
	_ = e.UnmarshalCbor(freeInput(7))
	verif.Reach("end")
}

func H04_BundleID() {
	var id BundleID
	_ = id.UnmarshalCbor(freeInput(8))
	verif.Reach("end")
}

func H04_StatusReport() {
	var sr StatusReport
	_ = sr.UnmarshalCbor(freeInput(6))
	verif.Reach("end")
}

func H04_AdminRecord() {
	_, _ = GetAdministrativeRecordManager().ReadAdministrativeRecord(freeInput(6))
	verif.Reach("end")
}

func H04_ExtBlocks() {
	var r *bytes.Reader
	switch verif.Choose("which", 4) {
	case 0:
		r = freeInput(7)
		var b DTLSRBlock
		_ = b.UnmarshalCbor(r)
	case 1:
		r = freeInput(7)
		var b ProphetBlock
		_ = b.UnmarshalCbor(r)
	case 2:
		r = freeInput(6)
		var b SignatureBlock
		_ = b.UnmarshalCbor(r)
	case 3:
		r = freeInput(6)
		var b HopCountBlock
		_ = b.UnmarshalCbor(r)
	}
	verif.Reach("end")
}

func H04_EndpointString() {
	n := verif.Size("len", 0, verif.Param("maxlen", 7))
	s := verif.ASCII("uri", n)
	verif.InputLen(n)
	_, _ = NewEndpointID(s)
	verif.Reach("end")
}

// H04_RawBytes: cboring.ReadRawBytes is the library's guard for byte and text strings: the declared length is an
// arbitrary 64-bit value.
func H04_RawBytes() {
	l := verif.U64("l")
	n := verif.Param("n", 4)
	verif.InputLen(n)
	_, _ = cboring.ReadRawBytes(l, bytes.NewReader(verif.Bytes("in", n)))
	verif.Reach("end")
}

// adminTemplate: an administrative-record bundle (status report about a fragment) whose encoding is mutated.
func adminTemplate() []byte {
	ref := tmplBundle(1)
	sr := NewStatusReport(ref, ReceivedBundle, NoInformation, DtnTimeEpoch)
	ar, err := Builder().Source("dtn://a/").Destination("dtn://b/").CreationTimestampEpoch().Lifetime("1h").
		BundleAgeBlock(uint64(0)).AdministrativeRecord(sr).Build()
	if err != nil {
		verif.Assert(false, "admin template builds")
		return nil
	}
	ar.SetCRCType(CRCNo)
	ar.PrimaryBlock.CRCType = CRCNo
	return serialised(ar)
}

// H04_AdminWindow: every position of an administrative-record bundle with a window of symbolic bytes, then parsed
// and, if accepted, its administrative record decoded (as the node does on reception).
func H04_AdminWindow() {
	enc := adminTemplate()
	win := verif.Param("window", 1)
	pos := verif.Size("pos", 0, len(enc)-win)
	in := append([]byte{}, enc...)
	copy(in[pos:], verif.Bytes("mut", win))
	verif.InputLen(len(in))
	verif.Observe("in", in)
	b, err := ParseBundle(bytes.NewReader(in))
	if err == nil {
		verif.Reach("accepted")
		if b.IsAdministrativeRecord() {
			_, _ = b.AdministrativeRecord()
		}
	}
	verif.Reach("end")
}

// H04_BundleWindow: the same over the two data bundle templates (all block types the templates carry).
func H04_BundleWindow() {
	registerRoutingBlocks()
	enc := serialised(tmplBundle(verif.Choose("tmpl", 2)))
	win := verif.Param("window", 1)
	pos := verif.Size("pos", 0, len(enc)-win)
	in := append([]byte{}, enc...)
	copy(in[pos:], verif.Bytes("mut", win))
	verif.InputLen(len(in))
	verif.Observe("in", in)
	_, _ = ParseBundle(bytes.NewReader(in))
	verif.Reach("end")
}

// H04_BundleTruncate: every truncation of the template encodings (and of the administrative-record template).
func H04_BundleTruncate() {
	registerRoutingBlocks()
	var enc []byte
	switch verif.Choose("tmpl", 3) {
	case 0:
		enc = serialised(tmplBundle(0))
	case 1:
		enc = serialised(tmplBundle(1))
	default:
		enc = adminTemplate()
	}
	cut := verif.Size("cut", 0, len(enc))
	verif.InputLen(cut)
	b, err := ParseBundle(bytes.NewReader(enc[:cut]))
	verif.Assert((err == nil) == (cut == len(enc)), "only the complete encoding is accepted")
	if err == nil && b.IsAdministrativeRecord() {
		_, _ = b.AdministrativeRecord()
	}
	verif.Reach("end")
}

func encOf(m interface{ MarshalCbor(w io.Writer) error }) []byte {
	var w bytes.Buffer
	if err := m.MarshalCbor(&w); err != nil {
		verif.Assert(false, "template marshals")
	}
	return append([]byte{}, w.Bytes()...)
}

// H04_WideHeaders: otherwise valid messages in which one array / map count or byte / text string length is
// re-encoded as an arbitrary 64-bit value (every such header of every template, one at a time): whole bundles (two data
// templates and an administrative-record bundle, decoded as the node does on reception) and the encodings of the
// nested decoders on their own (status report, administrative record, DTLSR and PRoPHET blocks with two entries,
// signature, hop count and previous node blocks, bundle ID, endpoint IDs, primary and canonical blocks). Obligations:
// no panic, the allocation policy, and the loop policy (no loop runs for a count from the input beyond
// max(1024, 64*len(input)) iterations).
func H04_WideHeaders() {
	registerRoutingBlocks()
	a, b := MustNewEndpointID("dtn://a/"), MustNewEndpointID("dtn://b/")
	which := verif.Choose("which", 14)
	var enc []byte
	var dec func(r *bytes.Reader)
	switch which {
	case 0, 1:
		enc = serialised(tmplBundle(which))
		dec = func(r *bytes.Reader) { _, _ = ParseBundle(r) }
	case 2:
		enc = adminTemplate()
		dec = func(r *bytes.Reader) {
			if pb, err := ParseBundle(r); err == nil && pb.IsAdministrativeRecord() {
				_, _ = pb.AdministrativeRecord()
			}
		}
	case 3:
		sr := NewStatusReport(tmplBundle(1), ReceivedBundle, NoInformation, DtnTimeEpoch)
		enc = encOf(sr)
		dec = func(r *bytes.Reader) { var x StatusReport; _ = x.UnmarshalCbor(r) }
	case 4:
		sr := NewStatusReport(tmplBundle(0), DeletedBundle, LifetimeExpired, DtnTimeEpoch)
		var w bytes.Buffer
		_ = GetAdministrativeRecordManager().WriteAdministrativeRecord(sr, &w)
		enc = append([]byte{}, w.Bytes()...)
		dec = func(r *bytes.Reader) { _, _ = GetAdministrativeRecordManager().ReadAdministrativeRecord(r) }
	case 5:
		enc = encOrdered(func() []byte {
			return encOf(NewDTLSRBlock(DTLSRPeerData{ID: a, Timestamp: 5, Peers: map[EndpointID]DtnTime{a: 0, b: 7}}))
		})
		dec = func(r *bytes.Reader) { var x DTLSRBlock; _ = x.UnmarshalCbor(r) }
	case 6:
		enc = encOrdered(func() []byte { return encOf(NewProphetBlock(map[EndpointID]float64{a: 0.5, b: 0.25})) })
		dec = func(r *bytes.Reader) { var x ProphetBlock; _ = x.UnmarshalCbor(r) }
	case 7:
		enc = encOf(&SignatureBlock{PublicKey: make([]byte, 32), Signature: make([]byte, 64)})
		dec = func(r *bytes.Reader) { var x SignatureBlock; _ = x.UnmarshalCbor(r) }
	case 8:
		enc = encOf(NewHopCountBlock(9))
		dec = func(r *bytes.Reader) { var x HopCountBlock; _ = x.UnmarshalCbor(r) }
	case 9:
		enc = encOf(NewPreviousNodeBlock(a))
		dec = func(r *bytes.Reader) { var x PreviousNodeBlock; _ = x.UnmarshalCbor(r) }
	case 10:
		id := tmplBundle(1).ID()
		enc = encOf(&id)
		dec = func(r *bytes.Reader) { var x BundleID; _ = x.UnmarshalCbor(r) }
	case 11:
		e := MustNewEndpointID("ipn:23.42")
		if verif.Bool("dtnscheme") {
			e = MustNewEndpointID("dtn://node/inbox")
		}
		enc = encOf(&e)
		dec = func(r *bytes.Reader) { var x EndpointID; _ = x.UnmarshalCbor(r) }
	case 12:
		pb := tmplBundle(1).PrimaryBlock
		enc = encOf(&pb)
		dec = func(r *bytes.Reader) { var x PrimaryBlock; _ = x.UnmarshalCbor(r) }
	case 13:
		tb := tmplBundle(0)
		cb := tb.CanonicalBlocks[verif.Choose("block", len(tb.CanonicalBlocks))]
		enc = encOf(&cb)
		dec = func(r *bytes.Reader) { var x CanonicalBlock; _ = x.UnmarshalCbor(r) }
	}
	hs := verif.CborHeaders(enc)
	verif.Assume(len(hs) > 0)
	p := hs[verif.Choose("header", len(hs))]
	in := verif.WidenHeader(enc, p, verif.Bytes("arg", 8))
	verif.InputLen(len(in))
	verif.Observe("in", in)
	dec(bytes.NewReader(in))
	verif.Reach("end")
}

// encOrdered: the encoding of a value that holds a two-entry map {a, b}, with a's entry first. The engine iterates maps
// in insertion order, the Go runtime in a random order: the native replay encodes again until it gets the same bytes.
func encOrdered(mk func() []byte) []byte {
	var e []byte
	for i := 0; i < 256; i++ {
		e = mk()
		if bytes.LastIndex(e, []byte("//a/")) < bytes.LastIndex(e, []byte("//b/")) {
			break
		}
	}
	return e
}
