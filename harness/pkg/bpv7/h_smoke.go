//go:build verif

package bpv7

import (
	"bytes"

	"github.com/dtn7/cboring"
	verif "github.com/dtn7/dtn7-go/pkg/zzverif"
)

// H00_Majors: WriteUInt/ReadUInt round trip for every 64-bit value (all five CBOR width classes).
func H00_Majors() {
	n := verif.U64("n")
	var b bytes.Buffer
	verif.Assert(cboring.WriteUInt(n, &b) == nil, "write ok")
	wlen := b.Len()
	b.WriteByte(0x17)
	m, err := cboring.ReadUInt(&b)
	verif.Assert(err == nil, "read ok")
	verif.Assert(m == n, "same value")
	verif.Assert(b.Len() == 1, "consumed exactly what was written")
	verif.Observe("wlen", wlen)
	verif.Observe("m", m)
	verif.Reach("end")
}

func H00_Timestamp() {
	ct := NewCreationTimestamp(DtnTime(verif.U64("t")), verif.U64("s"))
	var b bytes.Buffer
	verif.Assert(ct.MarshalCbor(&b) == nil, "marshal")
	b.WriteByte(0x17)
	var ct2 CreationTimestamp
	verif.Assert(ct2.UnmarshalCbor(&b) == nil, "unmarshal")
	verif.Assert(ct2 == ct, "equal")
	verif.Assert(b.Len() == 1, "aligned")
	verif.Reach("end")
}

func H00_Hop() {
	l := verif.U8("limit")
	c := verif.U8("count")
	verif.Assume(c <= l)
	h := &HopCountBlock{Limit: l, Count: c}
	ex := h.Increment()
	verif.Assert(ex == (uint16(c)+1 > uint16(l)), "exceeded iff count+1 > limit")
	verif.Reach("end")
}
