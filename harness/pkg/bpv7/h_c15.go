//go:build verif

package bpv7

import (
	verif "github.com/dtn7/dtn7-go/pkg/zzverif"
)

// H15_Report: NewStatusReport over every flag combination of the reference bundle (fully symbolic 21 flag bits),
// every position, fragment or whole bundle, symbolic reason and time: exactly one asserted item, at the requested
// position; a time exactly when the bundle requested one; the report names the bundle's exact ID including
// fragment offset and length; packaged by the builder it is an administrative record without request flags,
// addressed to the report-to endpoint.
func H15_Report() {
	fl := verif.U64("flags")
	verif.Assume(fl < 1<<21)
	ref := tmplBundle(0)
	ref.PrimaryBlock.BundleControlFlags = BundleControlFlags(fl)
	ref.PrimaryBlock.ReportTo = symEID("", 5, false)
	ref.PrimaryBlock.CreationTimestamp = NewCreationTimestamp(DtnTime(verif.U64("ts")), verif.U64("seq"))
	if ref.PrimaryBlock.BundleControlFlags.Has(IsFragment) {
		ref.PrimaryBlock.FragmentOffset, ref.PrimaryBlock.TotalDataLength = verif.U64("off"), verif.U64("tot")
	}
	pos := verif.Choose("pos", 4)
	reason := StatusReportReason(verif.U64("reason"))
	t := DtnTime(verif.U64("t"))
	sr := NewStatusReport(ref, StatusInformationPos(pos), reason, t)
	verif.Assert(len(sr.StatusInformation) == 4, "four status items")
	wantTime := fl&uint64(RequestStatusTime) != 0
	for i, it := range sr.StatusInformation {
		verif.Assert(it.Asserted == (i == pos), "exactly the item of the event is asserted")
		if i == pos {
			verif.Assert(it.StatusRequested == wantTime, "a time is reported exactly when the bundle requested it")
			verif.Assert(verif.Implies(wantTime, it.Time == t), "the reported time is the event time")
		} else {
			verif.Assert(!it.StatusRequested, "unasserted items carry no time")
		}
	}
	verif.Assert(sr.ReportReason == reason, "reason code as given")
	id := ref.ID()
	verif.Assert(bidEqual(sr.RefBundle, id), "report names the bundle's exact ID")
	verif.Assert(verif.And(sr.RefBundle.SourceNode == ref.PrimaryBlock.SourceNode, sr.RefBundle.Timestamp == ref.PrimaryBlock.CreationTimestamp,
		sr.RefBundle.IsFragment == (fl&1 != 0), verif.Implies(fl&1 != 0, verif.And(sr.RefBundle.FragmentOffset == ref.PrimaryBlock.FragmentOffset, sr.RefBundle.TotalDataLength == ref.PrimaryBlock.TotalDataLength))),
		"referenced ID = source, creation timestamp, and fragment offset and length of a fragment")
	sips := sr.StatusInformations()
	verif.Assert(len(sips) == 1 && int(sips[0]) == pos, "StatusInformations lists exactly the event")

	// packaged the way Core.SendStatusReport does
	out, err := Builder().CRC(CRC32).Source("dtn://this/").Destination(ref.PrimaryBlock.ReportTo).CreationTimestampNow().Lifetime("60m").StatusReport(ref, StatusInformationPos(pos), reason).Build()
	verif.Assert(err == nil, "status report bundle builds")
	ofl := uint64(out.PrimaryBlock.BundleControlFlags)
	verif.Assert(ofl&uint64(AdministrativeRecordPayload) != 0, "report bundle is an administrative record")
	verif.Assert(ofl&refStatusFlags == 0, "report bundle requests no reports itself")
	verif.Assert(out.PrimaryBlock.Destination == ref.PrimaryBlock.ReportTo, "report is addressed to the report-to endpoint")
	ar, aerr := out.AdministrativeRecord()
	verif.Assert(aerr == nil, "report bundle carries a decodable administrative record")
	sr2, ok := ar.(*StatusReport)
	verif.Assert(ok && bidEqual(sr2.RefBundle, id), "decoded report names the same bundle ID")
	verif.Reach("end")
}
