//go:build verif

package bpv7

import (
	"bytes"
	"fmt"

	verif "github.com/dtn7/dtn7-go/pkg/zzverif"
)

// ---- shared helpers for the bpv7 harnesses ----

// symU64w: a 64-bit field that is fully symbolic when wide, else < 24
// (width control, DESIGN section 5: one field at a time ranges over all five
// CBOR width classes).
func symU64w(name string, wide bool) uint64 {
	v := verif.U64(name)
	if !wide {
		verif.Assume(v < 24)
	}
	return v
}

// symEID builds an endpoint of the given kind:
//   0 dtn:none, 1 dtn://a/ (concrete), 2 dtn://<1-2 symbolic node chars>/<0-1 symbolic demux chars>,
//   3 ipn:n.s with symbolic 64-bit numbers (n, s >= 1), 4 dtn://node/inbox (concrete), 5 ipn:1.1
func symEID(name string, kind int, wide bool) EndpointID {
	switch kind {
	case 0:
		return DtnNone()
	case 1:
		return EndpointID{DtnEndpoint{NodeName: "a", Demux: ""}}
	case 2:
		nn := verif.Size(name+"_nl", 1, 2)
		dn := verif.Size(name+"_dl", 0, 1)
		node := verif.ASCII(name+"_node", nn)
		demux := verif.ASCII(name+"_demux", dn)
		for i := 0; i < len(node); i++ {
			verif.Assume(isNodeChar(node[i]))
		}
		for i := 0; i < len(demux); i++ {
			verif.Assume(demux[i] >= 0x21 && demux[i] <= 0x7e) // VCHAR
		}
		e := DtnEndpoint{NodeName: node, Demux: demux}
		verif.Assume(e.CheckValid() == nil)
		return EndpointID{e}
	case 3:
		n := symU64w(name+"_n", wide)
		s := symU64w(name+"_s", wide)
		verif.Assume(n >= 1 && s >= 1)
		return EndpointID{IpnEndpoint{Node: n, Service: s}}
	case 4:
		return EndpointID{DtnEndpoint{NodeName: "node", Demux: "inbox"}}
	default:
		return EndpointID{IpnEndpoint{Node: 1, Service: 1}}
	}
}

// isNodeChar: the documented node-name alphabet 1*(ALPHA/DIGIT/"-"/"."/"_") (endpoint_dtn.go).
func isNodeChar(c byte) bool {
	return verif.Or(verif.And(c >= 'a', c <= 'z'), verif.And(c >= 'A', c <= 'Z'), verif.And(c >= '0', c <= '9'), c == '-', c == '.', c == '_')
}

func eidEqual(a, b EndpointID) bool { return a == b }

// primaryEqual compares every field the property names (the cached CRC bytes are not a field of the value).
func primaryEqual(a, b PrimaryBlock) bool {
	return verif.And(a.Version == b.Version,
		a.BundleControlFlags == b.BundleControlFlags,
		a.CRCType == b.CRCType,
		a.Destination == b.Destination,
		a.SourceNode == b.SourceNode,
		a.ReportTo == b.ReportTo,
		a.CreationTimestamp == b.CreationTimestamp,
		a.Lifetime == b.Lifetime,
		a.FragmentOffset == b.FragmentOffset,
		a.TotalDataLength == b.TotalDataLength)
}

func bytesEq(a, b []byte) bool { return bytes.Equal(a, b) }

func registerRoutingBlocks() {
	m := GetExtensionBlockManager()
	_ = m.Register(NewBinarySprayBlock(0))
	_ = m.Register(NewDTLSRBlock(DTLSRPeerData{}))
	_ = m.Register(NewProphetBlock(nil))
	_ = m.Register(&SignatureBlock{})
}

func nm(s string, i int) string { return fmt.Sprintf("%s%d", s, i) }

// farFuture: a creation time that keeps the bundle alive for a century (ms since 2000), so that the wall clock
// does not influence harnesses that are not about lifetimes.
const tsAlive = uint64(4102444800000) // 2130-01-01
