//go:build verif

package bpv7

import (
	"bytes"
	"time"

	verif "github.com/dtn7/dtn7-go/pkg/zzverif"
)

// ---- the reference rule set, written from the property text (independent of every CheckValid in the repo) ----

func refEIDValid(e EndpointID) bool {
	switch t := e.EndpointType.(type) {
	case DtnEndpoint:
		if t.IsDtnNone {
			return true
		}
		if len(t.NodeName) == 0 {
			return false
		}
		ok := true
		for i := 0; i < len(t.NodeName); i++ {
			ok = verif.And(ok, isNodeChar(t.NodeName[i]))
		}
		return ok
	case IpnEndpoint:
		return verif.And(t.Node >= 1, t.Service >= 1)
	}
	return false
}

func refIsNone(e EndpointID) bool {
	t, ok := e.EndpointType.(DtnEndpoint)
	return ok && t.IsDtnNone
}

const refStatusFlags = uint64(StatusRequestReception | StatusRequestForward | StatusRequestDelivery | StatusRequestDeletion)

// refExpired: the lifetime has run out at `now` (milliseconds since 2000), by creation time, or by age when the
// creation time is zero.
func refExpired(b Bundle, nowMs uint64) bool {
	ts := uint64(b.PrimaryBlock.CreationTimestamp.DtnTime())
	if ts == 0 {
		for _, cb := range b.CanonicalBlocks {
			if a, ok := cb.Value.(*BundleAgeBlock); ok {
				return a.Age() > b.PrimaryBlock.Lifetime
			}
		}
		return true
	}
	return nowMs > ts+b.PrimaryBlock.Lifetime
}

// wellFormedRef: the BPv7 structural rules named by property C02.
func wellFormedRef(b Bundle, nowMs uint64) bool {
	pb := b.PrimaryBlock
	fl := uint64(pb.BundleControlFlags)
	ok := pb.Version == 7
	// exactly one payload block, numbered 1 and last; unique numbers; at most one block per type
	n := len(b.CanonicalBlocks)
	if n == 0 {
		return false
	}
	payloads := 0
	for i, cb := range b.CanonicalBlocks {
		if cb.TypeCode() == ExtBlockTypePayloadBlock {
			payloads++
			ok = verif.And(ok, cb.BlockNumber == 1)
			if i != n-1 {
				return false
			}
		}
		for j := 0; j < i; j++ {
			o := b.CanonicalBlocks[j]
			ok = verif.And(ok, o.BlockNumber != cb.BlockNumber, o.TypeCode() != cb.TypeCode())
		}
	}
	if payloads != 1 {
		return false
	}
	// endpoints
	ok = verif.And(ok, refEIDValid(pb.Destination), refEIDValid(pb.SourceNode), refEIDValid(pb.ReportTo))
	for _, cb := range b.CanonicalBlocks {
		if p, isPrev := cb.Value.(*PreviousNodeBlock); isPrev {
			ok = verif.And(ok, refEIDValid(p.Endpoint()))
		}
	}
	// flags
	isFrag := fl&uint64(IsFragment) != 0
	mustNot := fl&uint64(MustNotFragmented) != 0
	admin := fl&uint64(AdministrativeRecordPayload) != 0
	anon := refIsNone(pb.SourceNode)
	ok = verif.And(ok, verif.Not(verif.And(isFrag, mustNot)))
	anyReportBlock := false
	for _, cb := range b.CanonicalBlocks {
		anyReportBlock = verif.Or(anyReportBlock, uint64(cb.BlockControlFlags)&uint64(StatusReportBlock) != 0)
	}
	ok = verif.And(ok, verif.Implies(verif.Or(admin, anon), verif.And(fl&refStatusFlags == 0, verif.Not(anyReportBlock))))
	ok = verif.And(ok, verif.Implies(anon, mustNot))
	// zero creation time only with an age block
	hasAge := false
	for _, cb := range b.CanonicalBlocks {
		if _, isAge := cb.Value.(*BundleAgeBlock); isAge {
			hasAge = true
		}
		if h, isHop := cb.Value.(*HopCountBlock); isHop {
			ok = verif.And(ok, h.Count <= h.Limit)
		}
	}
	ok = verif.And(ok, verif.Implies(uint64(pb.CreationTimestamp.DtnTime()) == 0, hasAge))
	ok = verif.And(ok, verif.Not(refExpired(b, nowMs)))
	return ok
}

// clockMargin: assume the expiry instant of b (if it depends on the clock) is at least a day away from now, so that the
// verdict does not depend on the seconds between the symbolic run and a native replay.
func clockMargin(b Bundle, nowMs uint64) {
	ts := uint64(b.PrimaryBlock.CreationTimestamp.DtnTime())
	lt := b.PrimaryBlock.Lifetime
	const day = uint64(86400000)
	verif.Assume(ts < 1<<45 && lt < 1<<40)
	verif.Assume(verif.Or(ts == 0, ts+lt+day < nowMs, ts+lt > nowMs+day))
}

func nowMillis() uint64 { return uint64(DtnTimeFromTime(time.Now())) }

// symRawBundle builds a *raw* bundle literal: nothing is sorted or validated. The dimension `focus` selects which
// rules may be violated by this family: 0 flags (fully symbolic) x anonymous source x report-flag blocks;
// 1 block structure: 1..3 blocks in arbitrary order from {payload, hop count, bundle age, previous node, unknown}
// with numbers from {1,2,3} (duplicates of types and numbers, payload not last / not numbered 1 / missing);
// 2 creation time / lifetime / age / hop count values (symbolic) against the clock.
func symRawBundle(focus int) Bundle {
	pb := PrimaryBlock{Version: dtnVersion, CRCType: CRC16, Destination: symEID("d", 4, false), SourceNode: symEID("s", 1, false), ReportTo: symEID("r", 1, false),
		CreationTimestamp: NewCreationTimestamp(DtnTime(tsAlive), 1), Lifetime: 1000}
	var cbs []CanonicalBlock
	switch focus {
	case 0:
		fl := verif.U64("flags")
		verif.Assume(fl < 1<<21)
		pb.BundleControlFlags = BundleControlFlags(fl)
		if verif.Bool("anon") {
			pb.SourceNode, pb.ReportTo = DtnNone(), DtnNone()
		}
		if pb.BundleControlFlags.Has(IsFragment) {
			pb.FragmentOffset, pb.TotalDataLength = 0, 8
		}
		cbs = []CanonicalBlock{
			{BlockNumber: 2, BlockControlFlags: BlockControlFlags(symU64w("bcf", false)), Value: &HopCountBlock{Limit: 5, Count: 1}},
			{BlockNumber: 1, BlockControlFlags: BlockControlFlags(symU64w("pbcf", false)), Value: NewPayloadBlock([]byte("x"))},
		}
	case 1:
		n := verif.Size("nblocks", 1, 3)
		for i := 0; i < n; i++ {
			var v ExtensionBlock
			switch verif.Choose(nm("kind", i), 5) {
			case 0:
				v = NewPayloadBlock([]byte{byte(i)})
			case 1:
				v = &HopCountBlock{Limit: 5, Count: 1}
			case 2:
				v = NewBundleAgeBlock(7)
			case 3:
				v = NewPreviousNodeBlock(symEID("", 5, false))
			default:
				v = NewGenericExtensionBlock([]byte{1}, 99)
			}
			cbs = append(cbs, CanonicalBlock{BlockNumber: uint64(1 + verif.Choose(nm("bn", i), 3)), Value: v})
		}
	default:
		// creation time and lifetime from representative concrete values around the clock (the exact expiry instant
		// is the subject of C06's H06_Lifetime); bundle age and hop counts are symbolic
		const day = uint64(86400000)
		now := nowMillis()
		var ts, life uint64
		switch verif.Choose("tscase", 4) {
		case 0:
			ts = 0
		case 1:
			ts = now - 10*day
		case 2:
			ts = now + 10*day
		case 3:
			ts = tsAlive
		}
		switch verif.Choose("lifecase", 3) {
		case 0:
			life = 3600000
		case 1:
			life = 1<<32 + 30*day
		case 2:
			life = 1<<40 - 1 // about 35 years: longer than the time since the DTN epoch (2000-01-01)
		}
		pb.CreationTimestamp = NewCreationTimestamp(DtnTime(ts), symU64w("seq", false))
		pb.Lifetime = life
		if verif.Bool("hasage") {
			age := verif.U64("age")
			verif.Assume(age >= 1<<32 && age < 1<<41)
			cbs = append(cbs, CanonicalBlock{BlockNumber: 3, Value: NewBundleAgeBlock(age)})
		}
		cbs = append(cbs, CanonicalBlock{BlockNumber: 2, Value: &HopCountBlock{Limit: verif.U8("hl"), Count: verif.U8("hc")}})
		cbs = append(cbs, CanonicalBlock{BlockNumber: 1, Value: NewPayloadBlock([]byte("x"))})
	}
	return Bundle{PrimaryBlock: pb, CanonicalBlocks: cbs}
}

// H02_Accept: raw bundle -> real serialiser (which recomputes CRCs, so only the violated rule can cause rejection)
// -> ParseBundle: accepted => the rule set holds.
func H02_Accept() {
	b := symRawBundle(verif.Choose("focus", 3))
	now := nowMillis()
	clockMargin(b, now)
	var w bytes.Buffer
	if err := b.WriteBundle(&w); err != nil {
		verif.Reach("not-serialisable")
		return
	}
	b2, err := ParseBundle(&w)
	if err != nil {
		verif.Reach("rejected")
		return
	}
	verif.Reach("accepted")
	verif.Assert(wellFormedRef(b2, now), "accepted bundle obeys the structural rules")
}

// H02_AcceptWindow: mutated template encodings (reaches what the serialiser refuses to emit: version, endpoint
// text, scheme numbers): accepted => rule set holds.
func H02_AcceptWindow() {
	t := tmplBundle(verif.Choose("tmpl", 2))
	var w bytes.Buffer
	if t.WriteBundle(&w) != nil {
		verif.Assert(false, "template serialises")
		return
	}
	enc := w.Bytes()
	win := verif.Param("window", 1)
	pos := verif.Size("pos", 0, len(enc)-win)
	in := append([]byte{}, enc...)
	copy(in[pos:], verif.Bytes("mut", win))
	verif.InputLen(len(in))
	verif.Observe("in", in)
	now := nowMillis()
	b, err := ParseBundle(bytes.NewReader(in))
	if err != nil {
		verif.Reach("rejected")
		return
	}
	clockMargin(b, now)
	verif.Reach("accepted")
	verif.Assert(wellFormedRef(b, now), "accepted bundle obeys the structural rules")
}

// H02_Builder: bounded builder programs: whatever Build returns without error obeys the rules and is accepted by
// the parser.
func H02_Builder() {
	// prologue: source (anonymous or not) and destination; then `steps` arbitrary further calls
	bl := Builder().Source(symEID("src", verif.Choose("sk", 2)*4, false)).Destination("dtn://dst/")
	steps := verif.Size("steps", 0, verif.Param("maxsteps", 3))
	for i := 0; i < steps; i++ {
		switch 1 + verif.Choose(nm("op", i), 11) {
		case 1:
			bl = bl.Source("ipn:1.0") // invalid endpoint text
		case 2:
			bl = bl.ReportTo(symEID(nm("rt", i), 1, false))
		case 3:
			bl = bl.CreationTimestampEpoch()
		case 4:
			bl = bl.CreationTimestampNow()
		case 5:
			bl = bl.Lifetime(verif.U64(nm("life", i)))
		case 6:
			fl := verif.U64(nm("flags", i))
			verif.Assume(fl < 1<<21)
			bl = bl.BundleCtrlFlags(BundleControlFlags(fl))
		case 7:
			bl = bl.HopCountBlock(int(verif.U8(nm("hop", i))))
		case 8:
			bl = bl.BundleAgeBlock(verif.U64(nm("age", i)))
		case 9:
			bl = bl.PreviousNodeBlock(symEID(nm("prev", i), 5, false))
		case 10:
			bl = bl.PayloadBlock(verif.Bytes(nm("pl", i), 1))
		case 11:
			bl = bl.CRC(CRCType(verif.Choose(nm("crc", i), 3)))
		}
	}
	b, err := bl.Build()
	if err != nil {
		verif.Reach("refused")
		return
	}
	now := nowMillis()
	clockMargin(b, now)
	verif.Reach("built")
	verif.Assert(wellFormedRef(b, now), "built bundle obeys the structural rules")
	var w bytes.Buffer
	verif.Assert(b.WriteBundle(&w) == nil, "built bundle serialises")
	_, perr := ParseBundle(&w)
	verif.Assert(perr == nil, "built bundle is accepted by the parser")
}

// H02_Produced: bundles the library itself produces from a well-formed bundle - the fragments Bundle.Fragment returns
// and what ReassembleFragments makes of them - obey the rule set and are accepted by the parser. The input family aims
// at the rules a subset of the blocks can break: a clock-less bundle (zero creation time) whose bundle-age block may or
// may not carry the replicate flag, a hop count block (replicated or not), an anonymous or named source, every
// fragment size from "header only" to "fits".
func H02_Produced() {
	pb := PrimaryBlock{Version: dtnVersion, CRCType: CRC32, Destination: symEID("d", 4, false), SourceNode: symEID("s", 1, false), ReportTo: symEID("r", 1, false), Lifetime: 3600000}
	clockless := verif.Bool("clockless")
	var cbs []CanonicalBlock
	flagOf := func(name string) BlockControlFlags {
		if verif.Bool(name) {
			return ReplicateBlock
		}
		return 0
	}
	if clockless {
		pb.CreationTimestamp = NewCreationTimestamp(DtnTimeEpoch, symU64w("seq", false))
		cbs = append(cbs, CanonicalBlock{BlockNumber: 3, BlockControlFlags: flagOf("agerepl"), Value: NewBundleAgeBlock(symU64w("age", false))})
	} else {
		pb.CreationTimestamp = NewCreationTimestamp(DtnTime(tsAlive), 1)
	}
	if verif.Bool("hop") {
		cbs = append(cbs, CanonicalBlock{BlockNumber: 2, BlockControlFlags: flagOf("hoprepl"), Value: &HopCountBlock{Limit: 9, Count: verif.U8("hc")}})
	}
	n := 64 // large enough for limits well below the bundle size and above the (worst case) overhead estimate
	cbs = append(cbs, CanonicalBlock{BlockNumber: 1, Value: NewPayloadBlock(verif.Bytes("pl", n))})
	b := MustNewBundle(pb, cbs)
	now := nowMillis()
	verif.Assume(b.CheckValid() == nil && wellFormedRef(b, now))
	orig := serialised(b)
	mtu := verif.Size("mtu", len(orig)-n, len(orig))
	fs, err := b.Fragment(mtu)
	if err != nil {
		verif.Reach("refused")
		return
	}
	for _, f := range fs {
		verif.Assert(wellFormedRef(f, now), "a bundle produced by fragmentation obeys the structural rules")
		_, perr := ParseBundle(bytes.NewReader(serialised(f)))
		verif.Assert(perr == nil, "a bundle produced by fragmentation is accepted by the parser")
	}
	if len(fs) > 1 {
		verif.Reach("fragmented")
		r, rerr := ReassembleFragments(append([]Bundle{}, fs...))
		verif.Assert(rerr == nil, "the fragments reassemble")
		if rerr == nil {
			verif.Assert(wellFormedRef(r, now), "a bundle produced by reassembly obeys the structural rules")
			_, perr := ParseBundle(bytes.NewReader(serialised(r)))
			verif.Assert(perr == nil, "a bundle produced by reassembly is accepted by the parser")
		}
	}
	verif.Reach("end")
}
