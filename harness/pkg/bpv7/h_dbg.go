//go:build verif

package bpv7

import (
	"bytes"

	verif "github.com/dtn7/dtn7-go/pkg/zzverif"
)

func H99_Dbg() {
	b := MustNewBundle(PrimaryBlock{}, []CanonicalBlock{{BlockNumber: 1, Value: NewPayloadBlock([]byte("x"))}})
	buff := new(bytes.Buffer)
	for _, cb := range b.CanonicalBlocks {
		if cb.TypeCode() == ExtBlockTypePayloadBlock {
			cb = CanonicalBlock{
				BlockNumber:       cb.BlockNumber,
				BlockControlFlags: cb.BlockControlFlags,
				Value:             NewPayloadBlock(nil),
			}
		}
		cb.CRCType = CRC32
		verif.Assert(cb.Value != nil, "value set")
		_ = cb.MarshalCbor(buff)
	}
}
