//go:build verif

package storage

import (
	"bytes"
	"time"

	"github.com/dtn7/dtn7-go/pkg/bpv7"
	verif "github.com/dtn7/dtn7-go/pkg/zzverif"
)

func nm(s string, i int) string { return s + string(rune('0'+i)) }

var payload8 = []byte("abcdefgh")

// mkBundle: bundle number which (0/1: distinct IDs), whole or the fragment [off, off+n) of the 8-byte payload.
func mkBundle(which int, frag bool, off, n int) bpv7.Bundle {
	fl := bpv7.BundleControlFlags(0)
	pl := payload8
	if frag {
		fl = bpv7.IsFragment
		pl = payload8[off : off+n]
	}
	pb := bpv7.NewPrimaryBlock(fl, bpv7.MustNewEndpointID("dtn://dst/"), bpv7.MustNewEndpointID("dtn://src/"),
		bpv7.NewCreationTimestamp(bpv7.DtnTime(311209200000), uint64(which)), 3600000)
	if frag {
		pb.FragmentOffset, pb.TotalDataLength = uint64(off), uint64(len(payload8))
	}
	return bpv7.MustNewBundle(pb, []bpv7.CanonicalBlock{bpv7.NewCanonicalBlock(1, 0, bpv7.NewPayloadBlock(append([]byte{}, pl...)))})
}

func enc(b bpv7.Bundle) []byte {
	var w bytes.Buffer
	_ = b.WriteBundle(&w)
	return append([]byte{}, w.Bytes()...)
}

type refPart struct {
	off, n int
	enc    []byte
}

// refItem is the reference record of the harness's own map.
type refItem struct {
	present bool
	frag    bool
	pending bool
	parts   []refPart
}

func (r *refItem) covers() bool {
	if !r.frag {
		return true
	}
	var c [8]bool
	for _, p := range r.parts {
		for i := p.off; i < p.off+p.n; i++ {
			c[i] = true
		}
	}
	for _, x := range c {
		if !x {
			return false
		}
	}
	return true
}

// compare the store with the reference map.
func compare(s *Store, ref *[2]refItem) {
	npend := 0
	for w := 0; w < 2; w++ {
		id := mkBundle(w, false, 0, 0).ID()
		bi, err := s.QueryId(id)
		verif.Assert((err == nil) == ref[w].present, "lookup by ID returns exactly the records inserted and not deleted or expired")
		verif.Assert(s.KnowsBundle(id) == ref[w].present, "KnowsBundle agrees with the reference map")
		if err != nil {
			continue
		}
		r := &ref[w]
		verif.Assert(bi.Fragmented == r.frag, "fragmented flag as inserted")
		verif.Assert(bi.Pending == r.pending, "pending flag as last updated")
		verif.Assert(len(bi.Parts) == len(r.parts), "each distinct fragment is collected once in the record")
		for i, p := range bi.Parts {
			if i >= len(r.parts) {
				break
			}
			b, lerr := p.Load()
			verif.Assert(lerr == nil, "every stored part loads")
			verif.Assert(bytes.Equal(enc(b), r.parts[i].enc), "every stored bundle or fragment reads back byte-identical")
		}
		verif.Assert(bi.IsComplete() == r.covers(), "the record is complete exactly when its fragments cover the payload")
		if r.pending {
			npend++
		}
	}
	pend, perr := s.QueryPending()
	verif.Assert(perr == nil && len(pend) == npend, "the pending query returns exactly the records flagged pending")
	for _, p := range pend {
		verif.Assert(p.Pending, "records returned by the pending query are flagged pending")
	}
}

// H08_Map: sequences of store operations compared after every step with a reference map kept by the harness.
func H08_Map() {
	dir := verif.TempDir("store")
	s, err := NewStore(dir)
	verif.Assert(err == nil, "store opens")
	var ref [2]refItem
	steps := verif.Size("steps", verif.Param("minsteps", 1), verif.Param("maxsteps", 3))
	for i := 0; i < steps; i++ {
		w := verif.Choose(nm("which", i), 2)
		r := &ref[w]
		op := verif.Choose(nm("op", i), 7)
		if fo := verif.Param("firstop", -1); fo >= 0 && i == 0 && op != fo {
			return // another shard explores this first operation
		}
		switch op {
		case 0: // push the whole bundle
			b := mkBundle(w, false, 0, 0)
			verif.Assert(s.Push(b) == nil, "push succeeds")
			if !r.present {
				*r = refItem{present: true, parts: []refPart{{0, 8, enc(b)}}}
			}
		case 1: // push a fragment
			off := verif.Choose(nm("off", i), 3) * 3 // 0, 3, 6
			n := 2 + verif.Choose(nm("len", i), 2)*3   // 2 or 5
			if off+n > 8 {
				n = 8 - off
			}
			b := mkBundle(w, true, off, n)
			verif.Assert(s.Push(b) == nil, "push of a fragment succeeds")
			if !r.present {
				*r = refItem{present: true, frag: true, parts: []refPart{{off, n, enc(b)}}}
			} else if r.frag {
				known := false
				for _, p := range r.parts {
					// each distinct fragment once: a fragment is already there if a stored one at the same offset
					// carries at least as much data (fragments of different fragmentations may share an offset)
					known = known || (p.off == off && p.n >= n)
				}
				if !known {
					r.parts = append(r.parts, refPart{off, n, enc(b)})
				}
			}
		case 2: // update: set the pending flag
			if bi, qerr := s.QueryId(mkBundle(w, false, 0, 0).ID()); qerr == nil {
				bi.Pending = verif.Bool(nm("pend", i))
				verif.Assert(s.Update(bi) == nil, "update succeeds")
				r.pending = bi.Pending
			}
		case 3: // delete
			verif.Assert(s.Delete(mkBundle(w, false, 0, 0).ID()) == nil, "delete succeeds")
			*r = refItem{}
		case 4: // expiry sweep before the lifetime ends: nothing is removed
			s.DeleteExpired()
		case 5: // the clock passes the lifetime (1 h), then the sweep removes every record
			if i != steps-1 {
				return // only as the last operation: the test bundles must not be pushed after their lifetime ended
			}
			time.Sleep(3601 * time.Second)
			s.DeleteExpired()
			ref = [2]refItem{}
		case 6: // close and reopen
			verif.Assert(s.Close() == nil, "store closes")
			s, err = NewStore(dir)
			verif.Assert(err == nil, "store reopens on the same directory")
		}
		compare(s, &ref)
	}
	_ = s.Close()
	verif.Reach("end")
}

// H08_Crash: a store operation is aborted at one of the crash points inside Push / Delete (after the part file was
// written or removed, before the index is updated); the store is then closed and opened again: every record
// acknowledged before is intact and readable, the pending and expiry queries and a repeated Push work and lose nothing.
func H08_Crash() {
	dir := verif.TempDir("store")
	s, err := NewStore(dir)
	verif.Assert(err == nil, "store opens")
	// acknowledged records: bundle 0 (fragmented, one part, pending) - bundle 1 may be the victim
	f0 := mkBundle(0, true, 0, 5)
	verif.Assert(s.Push(f0) == nil, "push acknowledged")
	bi0, _ := s.QueryId(f0.ID())
	bi0.Pending = true
	verif.Assert(s.Update(bi0) == nil, "update acknowledged")
	victimIsNew := verif.Bool("victimnew")
	var victim bpv7.Bundle
	label := ""
	switch verif.Choose("op", 3) {
	case 0: // push of a new bundle dies after its part file was written
		victim, label = mkBundle(1, false, 0, 0), "push/part-written"
		_ = victimIsNew
	case 1: // push of a further fragment of bundle 0 dies after the part file was written
		victim, label = mkBundle(0, true, 5, 3), "push/fragment-part-written"
	case 2: // delete of bundle 0 dies after the part file was removed
		label = "delete/part-removed"
	}
	VerifCrashAt, VerifCrashSkip = label, 0
	crashed := false
	func() {
		defer func() {
			if r := recover(); r != nil {
				if _, ok := r.(VerifCrash); ok {
					crashed = true
					return
				}
				panic(r)
			}
		}()
		if label == "delete/part-removed" {
			_ = s.Delete(f0.ID())
		} else {
			_ = s.Push(victim)
		}
	}()
	verif.Assert(crashed, "the crash point is reached")
	// the process is gone; the node starts again on the same directory
	_ = s.Close()
	s, err = NewStore(dir)
	verif.Assert(err == nil, "store opens again after the aborted operation")
	pend, perr := s.QueryPending()
	verif.Assert(perr == nil, "pending query works after the restart")
	if label != "delete/part-removed" {
		verif.Assert(len(pend) == 1, "the acknowledged pending record is still returned")
		bi, qerr := s.QueryId(f0.ID())
		verif.Assert(qerr == nil && len(bi.Parts) >= 1, "the acknowledged record is intact")
		b, lerr := bi.Parts[0].Load()
		verif.Assert(lerr == nil && bytes.Equal(enc(b), enc(f0)), "the acknowledged part reads back byte-identical")
		// the interrupted push can be repeated and then takes effect
		verif.Assert(s.Push(victim) == nil, "the interrupted push can be repeated")
		vb, verr := s.QueryId(victim.ID())
		verif.Assert(verr == nil, "after the repeated push the bundle is stored")
		found := false
		for _, p := range vb.Parts {
			if lb, e := p.Load(); e == nil && bytes.Equal(enc(lb), enc(victim)) {
				found = true
			}
		}
		verif.Assert(found, "after the repeated push the bundle reads back byte-identical")
	} else {
		// the record whose delete was interrupted may still be listed, but using it must not make the node fail
		for _, p := range pend {
			_ = p.IsComplete()
			for _, part := range p.Parts {
				_, _ = part.Load()
			}
		}
		verif.Assert(s.Delete(f0.ID()) == nil, "the interrupted delete can be repeated")
		verif.Assert(!s.KnowsBundle(f0.ID()), "after the repeated delete the record is gone")
	}
	s.DeleteExpired()
	other := mkBundle(1, true, 0, 2)
	verif.Assert(s.Push(other) == nil, "the store accepts further bundles")
	_ = s.Close()
	verif.Reach("end")
}

// H08_Concurrent: two goroutines push different fragments of one bundle at the same time (the scheduler switches
// between them at every call into the key-value / file layer): both fragments end up in the one record.
func H08_Concurrent() {
	dir := verif.TempDir("store")
	s, err := NewStore(dir)
	verif.Assert(err == nil, "store opens")
	first := mkBundle(0, true, 0, 3)
	verif.Assert(s.Push(first) == nil, "first fragment stored")
	a, b := mkBundle(0, true, 3, 3), mkBundle(0, true, 6, 2)
	done := make(chan error, 2)
	go func() { done <- s.Push(a) }()
	go func() { done <- s.Push(b) }()
	verif.Assert(<-done == nil, "concurrent push succeeds")
	verif.Assert(<-done == nil, "concurrent push succeeds")
	bi, qerr := s.QueryId(first.ID())
	verif.Assert(qerr == nil, "record exists")
	verif.Observe("parts", len(bi.Parts))
	verif.Assert(len(bi.Parts) == 3, "fragments pushed concurrently are each collected once in the record")
	verif.Assert(bi.IsComplete(), "the record is complete once all fragments are there")
	_ = s.Close()
	verif.Reach("end")
}

// H08_FragmentMeta: metadata updates survive later insertions into the same record: a fragment is pushed, the record is
// updated (pending flag, a routing property, a moved expiry - any combination), then another fragment (new, duplicate,
// overlapping or containing) is pushed, and the store may be closed and reopened: the lookup still shows the updated
// pending flag, property and expiry, the pending query agrees, and the parts are those of the reference.
func H08_FragmentMeta() {
	dir := verif.TempDir("store")
	s, err := NewStore(dir)
	verif.Assert(err == nil, "store opens")
	offs := []int{0, 0, 3, 5}
	lens := []int{3, 8, 2, 3}
	a := verif.Choose("first", len(offs))
	b := verif.Choose("second", len(offs))
	verif.Assert(s.Push(mkBundle(0, true, offs[a], lens[a])) == nil, "push of a fragment succeeds")
	id := mkBundle(0, false, 0, 0).ID()
	bi, qerr := s.QueryId(id)
	verif.Assert(qerr == nil, "the record exists")
	setPending, setProp, setExp := verif.Bool("pending"), verif.Bool("property"), verif.Bool("expiry")
	if setPending {
		bi.Pending = true
	}
	if setProp {
		bi.Properties["routing/test"] = "value"
	}
	exp := bi.Expires
	if setExp {
		exp = bi.Expires.Add(-30 * time.Minute)
		bi.Expires = exp
	}
	verif.Assert(s.Update(bi) == nil, "update succeeds")
	verif.Assert(s.Push(mkBundle(0, true, offs[b], lens[b])) == nil, "push of a further fragment succeeds")
	if verif.Bool("reopen") {
		verif.Assert(s.Close() == nil, "store closes")
		s, err = NewStore(dir)
		verif.Assert(err == nil, "store reopens on the same directory")
	}
	got, gerr := s.QueryId(id)
	verif.Assert(gerr == nil, "the record is still there")
	verif.Assert(got.Pending == setPending, "the pending flag is as last updated, also after a further fragment was pushed")
	_, hasProp := got.Properties["routing/test"]
	verif.Assert(hasProp == setProp, "properties are as last updated, also after a further fragment was pushed")
	verif.Assert(got.Expires.Equal(exp), "the expiry is as last updated, also after a further fragment was pushed")
	pend, perr := s.QueryPending()
	verif.Assert(perr == nil && (len(pend) == 1) == setPending, "the pending query returns exactly the records flagged pending")
	wantParts := 1
	if !(offs[b] == offs[a] && lens[b] <= lens[a]) {
		wantParts = 2
	}
	verif.Assert(len(got.Parts) == wantParts, "each distinct fragment is collected once in the record")
	_ = s.Close()
	verif.Reach("end")
}
