//go:build verif

package storage

import (
	"bytes"

	"github.com/dtn7/dtn7-go/pkg/bpv7"
	verif "github.com/dtn7/dtn7-go/pkg/zzverif"
)

// H10_Store: the store's side of reassembly: 1..4 fragments of one bundle with arbitrary offsets and lengths (multiples
// of the configured grid) over an 8-byte payload (duplicates, overlaps, containment, gaps, any order) are pushed into a real Store; the record reports
// complete exactly when the fragments cover the whole payload, and BundleItem.Load succeeds exactly then and returns
// the original payload - in particular it does not succeed on a single fragment, and never returns other data.
func H10_Store() {
	s, err := NewStore(verif.TempDir("store"))
	verif.Assert(err == nil, "store opens")
	defer s.Close()
	k := verif.Size("frags", 1, verif.Param("maxfrags", 3))
	var covered [8]bool
	for i := 0; i < k; i++ {
		g := verif.Param("grid", 2) // offsets and lengths are multiples of the grid
		off := g * verif.Size(nm("off", i), 0, 8/g-1)
		n := g * verif.Size(nm("len", i), 1, (8-off)/g)
		verif.Assert(s.Push(mkBundle(0, true, off, n)) == nil, "pushing a fragment works")
		for j := off; j < off+n; j++ {
			covered[j] = true
		}
	}
	covers := true
	for _, c := range covered {
		covers = covers && c
	}
	bi, qerr := s.QueryId(mkBundle(0, true, 0, 1).ID())
	verif.Assert(qerr == nil && bi.Fragmented, "the fragments are collected in one record")
	verif.Assert(bi.IsComplete() == covers, "the record is complete exactly when the fragments cover the whole payload")
	b, lerr := bi.Load()
	verif.Assert((lerr == nil) == covers, "loading the record succeeds exactly when the fragments cover the whole payload")
	if lerr == nil {
		pl, perr := b.PayloadBlock()
		verif.Assert(perr == nil && bytes.Equal(pl.Value.(*bpv7.PayloadBlock).Data(), payload8), "the loaded bundle carries the original payload")
		verif.Assert(!b.PrimaryBlock.BundleControlFlags.Has(bpv7.IsFragment), "the loaded bundle is the whole bundle, not a fragment")
	}
	verif.Reach("end")
}
