//go:build verif

package storage

import "path"

// BadgerDirParent returns the directory the store was opened on (harness helper).
func (s *Store) BadgerDirParent() string { return path.Dir(s.badgerDir) }
