//go:build verif

package routing

import (
	"bytes"
	"time"

	"github.com/dtn7/dtn7-go/pkg/agent"
	"github.com/dtn7/dtn7-go/pkg/bpv7"
	"github.com/dtn7/dtn7-go/pkg/cla"
	verif "github.com/dtn7/dtn7-go/pkg/zzverif"
)

// inbox is a local application agent with a fixed endpoint and a buffered mailbox.
type inbox struct {
	eps []bpv7.EndpointID
	rx  chan agent.Message
	tx  chan agent.Message
}

func newInbox(eid string) *inbox {
	return &inbox{eps: []bpv7.EndpointID{bpv7.MustNewEndpointID(eid)}, rx: make(chan agent.Message, 8), tx: make(chan agent.Message)}
}
func (m *inbox) Endpoints() []bpv7.EndpointID        { return m.eps }
func (m *inbox) MessageReceiver() chan agent.Message { return m.rx }
func (m *inbox) MessageSender() chan agent.Message   { return m.tx }

// inject hands a bundle to the node the way a convergence layer does after reception from peer p.
func inject(p *mockCLA, b bpv7.Bundle) {
	p.ch <- cla.NewConvergenceReceivedBundle(p, bpv7.DtnNone(), &b)
	settle()
}

func canonicalEnc(cb bpv7.CanonicalBlock) []byte {
	var w bytes.Buffer
	_ = cb.MarshalCbor(&w)
	return w.Bytes()
}

func primaryEnc(b bpv7.Bundle) []byte {
	var w bytes.Buffer
	_ = b.PrimaryBlock.MarshalCbor(&w)
	return w.Bytes()
}

// H06_Forward: a bundle received from peer 1 with / without hop-count, bundle-age and previous-node blocks and an
// unknown block flagged for removal, waits `residence` milliseconds (no other peer connected), then peer 2 appears:
// what is handed to peer 2 parses as a valid bundle whose primary block and payload are byte-identical to what was
// accepted; hop count exactly one higher (also on the retry after a failed send); previous node = this node; the age
// block grew by the residence time in milliseconds; the removable unknown block is gone, other blocks unchanged.
// A bundle whose hop count would exceed its limit or whose lifetime ran out (by age, zero creation time) is not
// transmitted and is dropped from the store.
func H06_Forward() {
	var log []sendRec
	// one routing algorithm per configuration entry: what is handed to the
	// convergence layer is the same faithful copy; binary spray updates the block it owns
	algos := []string{"epidemic", "binary_spray", "dtlsr", "prophet"}
	algo := algos[verif.Param("algo", 0)]
	c, peers := coreWithPeers(algo, 8, 1, &log)
	defer c.Close()
	p1 := peers[0]
	p2 := newMockCLA("peer2", &log)
	farNode := bpv7.MustNewEndpointID("dtn://far/inbox")
	switch r := c.routing.(type) {
	case *DTLSR:
		r.dataMutex.Lock()
		r.routingTable[farNode] = p2.peer // the link-state graph says: peer 2 is the next hop for the destination
		r.dataMutex.Unlock()
	case *Prophet:
		r.dataMutex.Lock()
		r.peerPredictabilities[p2.peer] = map[bpv7.EndpointID]float64{farNode: 0.5}
		r.dataMutex.Unlock()
	}
	withHop, withAge := verif.Bool("hop"), verif.Bool("age")
	// 0..3 unsupported blocks of adjacent types, each flagged for removal or not (a kept one between removed ones, runs
	// of removed ones)
	pats := [][]bool{{}, {true}, {true, true}, {true, false, true}, {false}}
	unkRemove := pats[verif.Choose("unkpat", len(pats))]
	nUnknown := len(unkRemove)
	hopCount, hopLimit := verif.U8("hc"), verif.U8("hl")
	verif.Assume(hopCount <= hopLimit)
	age0 := verif.U64("age0")
	verif.Assume(age0 < 1000000)
	resIdx := verif.Choose("residence", 3)
	if shards := verif.Param("shards", 1); shards > 1 {
		verif.Assume(resIdx%shards == verif.Param("shard", 0))
	}
	residence := uint64(resIdx) * 1700 // 0, 1700, 3400 ms
	bl := bpv7.Builder().Source("dtn://origin/app").Destination("dtn://far/inbox").Lifetime("1h").PayloadBlock(verif.Bytes("pl", 3)).
		PreviousNodeBlock(p1.peer)
	if withAge {
		bl = bl.CreationTimestampEpoch().BundleAgeBlock(age0)
	} else {
		bl = bl.CreationTimestampNow()
	}
	if withHop {
		bl = bl.Canonical(&bpv7.HopCountBlock{Limit: hopLimit, Count: hopCount})
	}
	for i := 0; i < nUnknown; i++ {
		fl := bpv7.BlockControlFlags(0)
		if unkRemove[i] {
			fl = bpv7.RemoveBlock
		}
		bl = bl.Canonical(bpv7.NewGenericExtensionBlock([]byte{9, byte(i)}, uint64(222+i)), fl)
	}
	if algo == "binary_spray" {
		bl = bl.Canonical(bpv7.NewBinarySprayBlock(8))
	}
	b, err := bl.Build()
	verif.Assume(err == nil)
	origPrimary, origPayload := primaryEnc(b), append([]byte{}, payloadBytes(b)...)
	tRecv := time.Now()
	inject(p1, b)
	verif.Assert(len(copiesOf(log, b)) == 0, "the bundle is not sent back to the peer it came from")
	if residence > 0 {
		time.Sleep(time.Duration(residence) * time.Millisecond)
	}
	failFirst := verif.Bool("failfirst")
	p2.fail = failFirst
	c.RegisterConvergable(p2)
	p2.ch <- cla.NewConvergencePeerAppeared(p2, p2.peer)
	settle()
	refusedHop := withHop && uint16(hopCount)+1 > uint16(hopLimit)
	expiredByAge := withAge && age0+residence >= 3600000
	if refusedHop || expiredByAge {
		verif.Assert(len(copiesOf(log, b)) == 0, "a bundle over its hop limit or lifetime is never transmitted")
		verif.Assert(!c.store.KnowsBundle(b.ID()), "and is dropped from the store")
		verif.Reach("refused")
		return
	}
	if failFirst {
		verif.Assert(len(copiesOf(log, b)) == 1 && !copiesOf(log, b)[0].ok, "first attempt made and failed")
		p2.fail = false
		time.Sleep(10*time.Second + time.Millisecond) // pending-retry tick
	}
	dl := copiesOf(log, b) // the routing algorithm's own metadata bundles are not the subject here
	verif.Assert(len(dl) >= 1 && dl[len(dl)-1].ok && dl[len(dl)-1].peer == p2.addr, "the bundle is transmitted to the new peer")
	sent := dl[len(dl)-1].b
	verif.Assert(bytes.Equal(primaryEnc(sent), origPrimary), "primary block byte-identical to what was accepted")
	verif.Assert(bytes.Equal(payloadBytes(sent), origPayload), "payload byte-identical to what was accepted")
	if withHop {
		hb, herr := sent.ExtensionBlock(bpv7.ExtBlockTypeHopCountBlock)
		verif.Assert(herr == nil, "hop count block still present")
		h := hb.Value.(*bpv7.HopCountBlock)
		verif.Assert(uint16(h.Count) == uint16(hopCount)+1 && h.Limit == hopLimit, "hop count exactly one higher than received (also on the retry)")
	}
	pn, perr := sent.ExtensionBlock(bpv7.ExtBlockTypePreviousNodeBlock)
	verif.Assert(perr == nil && pn.Value.(*bpv7.PreviousNodeBlock).Endpoint() == c.NodeId, "the previous-node block names this node")
	if withAge {
		ab, aerr := sent.ExtensionBlock(bpv7.ExtBlockTypeBundleAgeBlock)
		verif.Assert(aerr == nil, "age block still present")
		got := ab.Value.(*bpv7.BundleAgeBlock).Age()
		stay := uint64(dl[len(dl)-1].at.Sub(tRecv) / time.Millisecond)
		verif.Observe("age", got, stay)
		verif.Assert(got+2 >= age0+stay && got <= age0+stay+2 && stay >= residence, "the bundle age grew by the residence time in milliseconds")
	}
	for i := 0; i < nUnknown; i++ {
		ub, uerr := sent.ExtensionBlock(uint64(222 + i))
		if unkRemove[i] {
			verif.Assert(uerr != nil, "an unsupported block flagged for removal is removed (also on the retry, also next to another one)")
		} else {
			ob, _ := b.ExtensionBlock(uint64(222 + i))
			verif.Assert(uerr == nil && bytes.Equal(canonicalEnc(*ub), canonicalEnc(*ob)), "an unsupported block that is not flagged for removal leaves the node unchanged")
		}
	}
	if algo == "binary_spray" {
		sb, serr := sent.ExtensionBlock(bpv7.ExtBlockTypeBinarySprayBlock)
		verif.Assert(serr == nil && sb.Value.(*bpv7.BinarySprayBlock).RemainingCopies() == 4, "binary spray hands over half of the copies it received (block owned by the routing algorithm)")
	}
	verif.Reach("end")
}

// copiesOf: the transmissions of bundle b among the logged ones.
func copiesOf(log []sendRec, b bpv7.Bundle) (out []sendRec) {
	for _, r := range log {
		if r.b.ID().Scrub() == b.ID().Scrub() {
			out = append(out, r)
		}
	}
	return
}

func payloadBytes(b bpv7.Bundle) []byte {
	p, err := b.PayloadBlock()
	if err != nil {
		return nil
	}
	return p.Value.(*bpv7.PayloadBlock).Data()
}

// reportsIn decodes the status reports among the bundles handed to the convergence layers.
type seenReport struct {
	rep *bpv7.StatusReport
	b   bpv7.Bundle
}

func reportsIn(log []sendRec) (out []seenReport) {
	for _, r := range log {
		if !r.b.IsAdministrativeRecord() {
			continue
		}
		ar, err := r.b.AdministrativeRecord()
		verif.Assert(err == nil, "an emitted administrative record decodes")
		if sr, ok := ar.(*bpv7.StatusReport); ok {
			out = append(out, seenReport{sr, r.b})
		}
	}
	return
}

// H15_Core: a bundle with every combination of the four report-request flags and the time flag arrives from peer 1
// with one of the outcomes {delivered to a local agent, addressed to this node but no agent, forwarded to peer 2,
// the send to peer 2 fails, hop limit exceeded, unknown block with report / delete flags}; the status reports the node
// emits (decoded from what the convergence layers were handed) are exactly those the events justify; each is an
// administrative record without request flags, addressed to report-to, naming the exact bundle ID, with a time only
// if requested; none about an administrative record or when report-to is this node. Local destinations are not
// transmitted to peers; a delivery is reported only after a hand-over.
func H15_Core() {
	var log []sendRec
	c, peers := coreWithPeers("epidemic", 0, 2, &log)
	defer c.Close()
	p1, p2 := peers[0], peers[1]
	box := newInbox("dtn://this/box")
	c.RegisterApplicationAgent(box)
	// an agent at the endpoint used as "report-to is this node": a report the node addressed to itself would show up here
	repbox := newInbox("dtn://this/reports")
	c.RegisterApplicationAgent(repbox)
	settle()
	fl := verif.U64("flags")
	verif.Assume(fl&^uint64(bpv7.StatusRequestReception|bpv7.StatusRequestForward|bpv7.StatusRequestDelivery|bpv7.StatusRequestDeletion|bpv7.RequestStatusTime) == 0)
	outcome := verif.Choose("outcome", 8) // 6: the lifetime has run out when the bundle is to be forwarded; 7: the first
	// transmission fails and the bundle is forwarded by the pending-retry job, from the store
	if shards := verif.Param("shards", 1); shards > 1 {
		verif.Assume(outcome%shards == verif.Param("shard", 0))
	}
	reportToSelf := verif.Bool("reporttoself")
	// localSrc: the bundle is submitted by a local application (source is an endpoint of this node) instead of being
	// received from peer 1; only for the outcomes that involve forwarding
	localSrc := ((outcome >= 2 && outcome <= 4) || outcome == 7) && verif.Bool("localsrc")
	// the bundle is a fragment: reports name its offset and length
	isFrag := !localSrc && verif.Bool("fragment")
	if isFrag {
		fl |= uint64(bpv7.IsFragment)
	}
	dst := "dtn://far/inbox"
	switch outcome {
	case 0:
		dst = "dtn://this/box"
	case 1:
		dst = "dtn://this/nobody"
	}
	src := "dtn://origin/app"
	if localSrc {
		src = "dtn://this/box"
	}
	bl := bpv7.Builder().Source(src).Destination(dst).CreationTimestampNow().Lifetime("1h").PayloadBlock([]byte("data")).
		BundleCtrlFlags(bpv7.BundleControlFlags(fl))
	if !localSrc {
		bl = bl.PreviousNodeBlock(p1.peer)
	}
	if reportToSelf {
		bl = bl.ReportTo("dtn://this/reports")
	} else {
		bl = bl.ReportTo("dtn://rep/inbox")
	}
	blockFlags := bpv7.BlockControlFlags(0)
	switch outcome {
	case 3, 7:
		p2.fail = true
		if localSrc {
			p1.fail = true
		}
	case 4:
		bl = bl.Canonical(&bpv7.HopCountBlock{Limit: 3, Count: 3})
	case 5:
		blockFlags = bpv7.BlockControlFlags(verif.U8("bflags")) & (bpv7.StatusReportBlock | bpv7.DeleteBundle | bpv7.RemoveBlock)
		bl = bl.Canonical(bpv7.NewGenericExtensionBlock([]byte{1}, 222), blockFlags)
	}
	b, err := bl.Build()
	verif.Assume(err == nil)
	if outcome == 5 && verif.Bool("othersreport") {
		// the supported blocks around the unknown one carry the report flag themselves (which asks for nothing: a
		// supported block is processed) - the unknown block's own flags alone decide
		for i := range b.CanonicalBlocks {
			if b.CanonicalBlocks[i].TypeCode() != 222 {
				b.CanonicalBlocks[i].BlockControlFlags |= bpv7.StatusReportBlock
			}
		}
	}
	if outcome == 6 {
		// created two hours ago with a lifetime of one hour (handed up by a convergence layer that does not judge lifetimes)
		b.PrimaryBlock.CreationTimestamp = bpv7.NewCreationTimestamp(bpv7.DtnTimeFromTime(time.Now().Add(-2*time.Hour)), 0)
	}
	if isFrag {
		b.PrimaryBlock.FragmentOffset, b.PrimaryBlock.TotalDataLength = 3, 40
	}
	if localSrc {
		c.SendBundle(&b)
		settle()
	} else {
		inject(p1, b)
	}
	if outcome == 7 {
		p1.fail, p2.fail = false, false
		time.Sleep(10*time.Second + time.Millisecond) // pending-retry tick: the bundle is loaded from the store
	}
	// what happened
	delivered := len(box.rx) > 0
	var dataSends, okDataSends int
	for _, r := range log {
		if !r.b.IsAdministrativeRecord() {
			dataSends++
			if r.ok {
				okDataSends++
			}
			verif.Assert(localSrc || r.peer != p1.addr, "the bundle is not sent back to the peer it came from")
		}
	}
	local := outcome == 0 || outcome == 1
	deleted := outcome == 4 || outcome == 6 || (outcome == 5 && blockFlags&bpv7.DeleteBundle != 0)
	if local {
		verif.Assert(dataSends == 0, "a bundle for a local endpoint is not transmitted to peers")
		verif.Assert(delivered == (outcome == 0), "it is handed to the agent registered for exactly that endpoint")
	}
	if deleted {
		verif.Assert(dataSends == 0, "a refused bundle is not transmitted")
		verif.Assert(!c.store.KnowsBundle(b.ID()), "a refused bundle is dropped from the store")
	}
	// no report when report-to is this node: nothing administrative reaches the local agent at that endpoint, and
	// nothing administrative is stored or handed to a convergence layer
	selfReports := 0
	for len(repbox.rx) > 0 {
		if bm, ok := (<-repbox.rx).(agent.BundleMessage); ok && bm.Bundle.IsAdministrativeRecord() {
			selfReports++
		}
	}
	verif.Assert(selfReports == 0, "no report is generated about a bundle whose report-to endpoint is this node")
	// expected reports
	want := map[bpv7.StatusInformationPos]bool{}
	if !reportToSelf {
		if !localSrc && (fl&uint64(bpv7.StatusRequestReception) != 0 || (outcome == 5 && blockFlags&bpv7.StatusReportBlock != 0)) {
			want[bpv7.ReceivedBundle] = true
		}
		if fl&uint64(bpv7.StatusRequestForward) != 0 && okDataSends > 0 {
			want[bpv7.ForwardedBundle] = true
		}
		if fl&uint64(bpv7.StatusRequestDelivery) != 0 && delivered {
			want[bpv7.DeliveredBundle] = true
		}
		if fl&uint64(bpv7.StatusRequestDeletion) != 0 && deleted {
			want[bpv7.DeletedBundle] = true
		}
	}
	got := map[bpv7.StatusInformationPos]int{}
	for _, sr := range reportsIn(log) {
		sips := sr.rep.StatusInformations()
		verif.Assert(len(sips) == 1, "a report asserts exactly one event")
		got[sips[0]]++
		verif.Assert(want[sips[0]], "a report is emitted only for an event that happened and was asked for")
		ofl := uint64(sr.b.PrimaryBlock.BundleControlFlags)
		verif.Assert(ofl&uint64(bpv7.AdministrativeRecordPayload) != 0 && ofl&uint64(bpv7.StatusRequestReception|bpv7.StatusRequestForward|bpv7.StatusRequestDelivery|bpv7.StatusRequestDeletion) == 0, "a report is an administrative record without report requests")
		verif.Assert(sr.b.PrimaryBlock.Destination == b.PrimaryBlock.ReportTo, "a report is addressed to the bundle's report-to endpoint")
		id := b.ID()
		verif.Assert(sr.rep.RefBundle.SourceNode == id.SourceNode && sr.rep.RefBundle.Timestamp == id.Timestamp && sr.rep.RefBundle.IsFragment == id.IsFragment, "a report names the bundle's exact ID")
		if isFrag {
			verif.Assert(sr.rep.RefBundle.FragmentOffset == 3 && sr.rep.RefBundle.TotalDataLength == 40, "a report about a fragment names its offset and total length")
		}
		if outcome == 6 && sips[0] == bpv7.DeletedBundle {
			verif.Assert(sr.rep.ReportReason == bpv7.LifetimeExpired, "a deletion because of the lifetime says so")
		}
		item := sr.rep.StatusInformation[sips[0]]
		verif.Assert(item.StatusRequested == (fl&uint64(bpv7.RequestStatusTime) != 0), "a report carries a time only if requested")
	}
	// (Completeness - every requested report is emitted - is not part of the property, which only restricts when a
	// report may be emitted; the reach label keeps the harness from passing vacuously when nothing is reported at all.)
	emitted := true
	for pos := range want {
		emitted = emitted && got[pos] >= 1
	}
	if len(want) > 0 && emitted {
		verif.Reach("reported")
	}
	verif.Reach("end")
}

// H07_Ping: the ping agent behind a real Core: a bundle for the ping endpoint arrives from peer 1 - with a report-to
// endpoint of each kind (dtn, ipn, dtn:none, the sender itself), with or without a hop count block (any limit), with
// any lifetime of up to a day: it is handed to the ping agent and not forwarded; exactly one answer is generated per
// accepted ping; the answer is a well-formed bundle (it passes the parser inside the convergence layer) that originates
// at this node. (Where the answer goes and which lifetime / hop limit it carries is the ping agent's business, not part
// of any property: not asserted.)
func H07_Ping() {
	var log []sendRec
	c, peers := coreWithPeers("epidemic", 0, 2, &log)
	defer c.Close()
	p1 := peers[0]
	ping := agent.NewPing(bpv7.MustNewEndpointID("dtn://this/ping"))
	c.RegisterApplicationAgent(ping)
	settle()
	rts := []string{"dtn://origin/app", "ipn:23.42", "dtn:none", "dtn://peer1/"}
	rt := rts[verif.Choose("reportto", len(rts))]
	life := verif.U64("lifetime")
	verif.Assume(life >= 1000 && life <= 86400000)
	bl := bpv7.Builder().Source("dtn://origin/app").Destination("dtn://this/ping").ReportTo(rt).CreationTimestampNow().Lifetime(life).
		PayloadBlock([]byte("ping")).PreviousNodeBlock(p1.peer)
	withHop := verif.Bool("hop")
	limit := verif.U8("limit")
	if withHop {
		bl = bl.Canonical(&bpv7.HopCountBlock{Limit: limit, Count: 0})
	}
	b, err := bl.Build()
	verif.Assume(err == nil)
	inject(p1, b)
	pongs := 0
	for _, r := range log {
		verif.Assert(!bytes.Equal(payloadBytes(r.b), []byte("ping")), "a bundle for a local endpoint is not transmitted to peers")
		if bytes.Equal(payloadBytes(r.b), []byte("pong")) && r.peer == peers[1].addr {
			pongs++
			verif.Assert(r.b.PrimaryBlock.SourceNode.SameNode(c.NodeId), "the answer originates at this node")
		}
	}
	if rt == "dtn://peer1/" || rt == "dtn:none" {
		// answers for peer 1 are delivered directly, answers for nobody are not offered to peer 2 necessarily
		verif.Reach("end")
		return
	}
	verif.Assert(pongs <= 1, "at most one answer per accepted ping")
	if withHop && limit == 0 {
		// the implementation lets the answer inherit the ping's hop limit; with the limit 0 its first hop would exceed it
		// and it stays in the node (C06) - either way is fine here
		verif.Reach("end")
		return
	}
	verif.Assert(pongs == 1, "exactly one answer per accepted ping reaches the other peer")
	verif.Reach("end")
}

