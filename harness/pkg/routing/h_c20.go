//go:build verif

package routing

import (
	"time"

	"github.com/dtn7/dtn7-go/pkg/bpv7"
	verif "github.com/dtn7/dtn7-go/pkg/zzverif"
)

const inf = uint64(1) << 62

// H20_Table: the real computeRoutingTable (third-party Dijkstra with zero-cost arcs) on link-state graphs with up to
// n nodes: own links and links reported by the other nodes exist by choice and are live (cost 0) or were lost at an
// arbitrary past instant (cost = time since the loss); compared with Bellman-Ford distances computed by the harness:
// a destination is in the table exactly when a path exists, and its next hop is one of the node's own neighbours on a
// minimum-cost path.
func H20_Table() {
	n := verif.Size("nodes", 2, verif.Param("maxnodes", 3))
	ids := []bpv7.EndpointID{bpv7.MustNewEndpointID("dtn://this/")}
	for i := 1; i < n; i++ {
		ids = append(ids, bpv7.MustNewEndpointID("dtn://n"+string(rune('0'+i))+"/"))
	}
	now := uint64(bpv7.DtnTimeNow())
	d := &DTLSR{
		c:            &Core{NodeId: ids[0]},
		routingTable: map[bpv7.EndpointID]bpv7.EndpointID{},
		peers:        bpv7.DTLSRPeerData{ID: ids[0], Timestamp: bpv7.DtnTime(now), Peers: map[bpv7.EndpointID]bpv7.DtnTime{}},
		receivedData: map[bpv7.EndpointID]bpv7.DTLSRPeerData{},
		nodeIndex:    map[bpv7.EndpointID]int{ids[0]: 0},
		indexNode:    []bpv7.EndpointID{ids[0]},
		length:       1,
	}
	// cost matrix of the harness (inf = no link)
	cost := make([][]uint64, n)
	for i := range cost {
		cost[i] = make([]uint64, n)
		for j := range cost[i] {
			cost[i][j] = inf
		}
	}
	link := func(i, j int) (bpv7.DtnTime, bool) {
		switch verif.Choose(nm("l"+nm("_", i)+"_", j), 3) {
		case 0:
			return 0, false // no link
		case 1:
			cost[i][j] = 0
			return 0, true // live
		default:
			age := verif.U64(nm("age"+nm("_", i)+"_", j))
			verif.Assume(age >= 1 && age <= 1000000)
			cost[i][j] = age
			return bpv7.DtnTime(now - age), true // lost `age` milliseconds ago
		}
	}
	for j := 1; j < n; j++ {
		if ts, ok := link(0, j); ok {
			d.newNode(ids[j])
			d.peers.Peers[ids[j]] = ts
		}
	}
	for i := 1; i < n; i++ {
		data := bpv7.DTLSRPeerData{ID: ids[i], Timestamp: bpv7.DtnTime(now), Peers: map[bpv7.EndpointID]bpv7.DtnTime{}}
		any := false
		for j := 1; j < n; j++ {
			if i == j {
				continue
			}
			if ts, ok := link(i, j); ok {
				data.Peers[ids[j]] = ts
				any = true
			}
		}
		if any || verif.Bool(nm("reported", i)) {
			d.receivedData[ids[i]] = data
			d.newNode(ids[i])
			for p := range data.Peers {
				d.newNode(p)
			}
		}
	}
	d.computeRoutingTable()
	// Bellman-Ford over symbolic costs (branch-free)
	dist := make([]uint64, n)
	for i := range dist {
		dist[i] = inf
	}
	dist[0] = 0
	for round := 0; round < n-1; round++ {
		for i := 0; i < n; i++ {
			for j := 0; j < n; j++ {
				if cost[i][j] == inf {
					continue
				}
				via := dist[i] + cost[i][j]
				better := verif.And(dist[i] < inf, via < dist[j])
				dist[j] = verif.Ite64(better, via, dist[j])
			}
		}
	}
	for j := 1; j < n; j++ {
		hop, ok := d.routingTable[ids[j]]
		reachable := dist[j] < inf
		if _, knownNode := d.nodeIndex[ids[j]]; !knownNode {
			verif.Assert(!ok, "an unknown node is not in the table")
			continue
		}
		verif.Assert(ok == reachable, "a destination is in the routing table exactly when the link-state graph contains a path to it")
		if !ok {
			continue
		}
		hi := -1
		for k := 1; k < n; k++ {
			if ids[k] == hop {
				hi = k
			}
		}
		verif.Assert(hi > 0 && cost[0][hi] < inf, "the next hop is one of the node's own current or recently lost neighbours")
		// dist from hop to j: Bellman-Ford from hi
		dh := make([]uint64, n)
		for i := range dh {
			dh[i] = inf
		}
		dh[hi] = 0
		for round := 0; round < n-1; round++ {
			for a := 0; a < n; a++ {
				for b := 0; b < n; b++ {
					if cost[a][b] == inf {
						continue
					}
					via := dh[a] + cost[a][b]
					dh[b] = verif.Ite64(verif.And(dh[a] < inf, via < dh[b]), via, dh[b])
				}
			}
		}
		verif.Assert(verif.And(dh[j] < inf, cost[0][hi]+dh[j] == dist[j]), "the next hop lies on a minimum-cost path")
	}
	verif.Reach("end")
}

// H20_Replace: link-state data from a node is replaced only by data from that node with a newer timestamp, in
// whatever order the two updates arrive.
func H20_Replace() {
	var log []sendRec
	c, _ := coreWithPeers("dtlsr", 0, 0, &log)
	defer c.Close()
	d := c.routing.(*DTLSR)
	src := bpv7.MustNewEndpointID("dtn://n1/")
	x, y := bpv7.MustNewEndpointID("dtn://x/"), bpv7.MustNewEndpointID("dtn://y/")
	t1, t2 := verif.U64("t1"), verif.U64("t2")
	verif.Assume(t1 < 1<<40 && t2 < 1<<40)
	mk := func(ts uint64, peer bpv7.EndpointID, seq uint64) BundleDescriptor {
		blk := bpv7.NewDTLSRBlock(bpv7.DTLSRPeerData{ID: src, Timestamp: bpv7.DtnTime(ts), Peers: map[bpv7.EndpointID]bpv7.DtnTime{peer: 0}})
		b := dataBundle("dtn://n1/", dtlsrBroadcastAddress, seq, func(bl *bpv7.BundleBuilder) { bl.Canonical(blk) })
		return NewBundleDescriptorFromBundle(b, c.store)
	}
	first, second := mk(t1, x, 0), mk(t2, y, 1)
	d.NotifyNewBundle(first)
	d.NotifyNewBundle(second)
	got := d.receivedData[src]
	_, hasX := got.Peers[x]
	_, hasY := got.Peers[y]
	// stored = the newer one; with equal timestamps the first one stays
	newerSecond := t2 > t1
	verif.Assert(verif.And(hasY == newerSecond, hasX == !newerSecond), "stored link-state data is replaced only by data with a newer timestamp")
	verif.Assert(uint64(got.Timestamp) == verif.Ite64(newerSecond, t2, t1), "the stored data carries the newer timestamp")
	verif.Reach("end")
}

// H20_Select: apart from direct delivery, a unicast bundle is handed only to the table's next hop for its destination
// (and then released); broadcast link-state bundles go once to every peer.
func H20_Select() {
	var log []sendRec
	c, peers := coreWithPeers("dtlsr", 0, 3, &log)
	defer c.Close()
	d := c.routing.(*DTLSR)
	far := bpv7.MustNewEndpointID("dtn://far/")
	hasRoute := verif.Bool("route")
	via := verif.Choose("via", 3)
	if hasRoute {
		d.routingTable[far] = peers[via].peer
	}
	b := dataBundle("dtn://origin/app", "dtn://far/", 0)
	bp := NewBundleDescriptorFromBundle(b, c.store)
	d.NotifyNewBundle(bp)
	css, del := d.SenderForBundle(bp)
	if hasRoute {
		verif.Assert(len(css) == 1 && css[0] == peers[via], "a unicast bundle is handed only to the next hop of the routing table")
		verif.Assert(del, "and is then released")
	} else {
		verif.Assert(len(css) == 0 && !del, "without a route nothing is sent and the bundle is kept")
	}
	bb := dataBundle("dtn://this/", dtlsrBroadcastAddress, 1)
	bbp := NewBundleDescriptorFromBundle(bb, c.store)
	d.NotifyNewBundle(bbp)
	all, bdel := d.SenderForBundle(bbp)
	verif.Assert(len(all) == 3 && !bdel, "a broadcast bundle goes to every peer")
	again, _ := d.SenderForBundle(bbp)
	verif.Assert(len(again) == 0, "and to every peer only once")
	verif.Reach("end")
}

// H20_Feed: the link-state graph built the way it arrives: on a real Core with DTLSR, peer a (and optionally peer b)
// appear as neighbours, then up to `updates` link-state bundles arrive through NotifyNewBundle, each from a or b with
// a timestamp from {1,2} and an arbitrary subset of the remaining nodes {b, d} resp. {d} as live links - so later
// bundles add nodes that were unknown before, withdraw links, arrive out of order or with equal timestamps. After the
// recompute job the table is compared with reachability in the graph the accepted data (newer timestamp wins, first
// one stays on a tie) describes: a destination is in the table exactly when a path exists, and the next hop is an own
// neighbour from which the destination is reachable. (All links are live here, so every path has cost 0; costs are
// the subject of H20_Table.)
func H20_Feed() {
	var log []sendRec
	c, _ := coreWithPeers("dtlsr", 0, 0, &log)
	defer c.Close()
	d := c.routing.(*DTLSR)
	names := []string{"dtn://this/", "dtn://a/", "dtn://b/", "dtn://d/"}
	var ids []bpv7.EndpointID
	for _, s := range names {
		ids = append(ids, bpv7.MustNewEndpointID(s))
	}
	const nn = 4
	var adj [nn][nn]bool
	ma := newMockCLA("a", &log)
	ma.peer = ids[1]
	d.ReportPeerAppeared(ma)
	adj[0][1] = true
	if verif.Bool("bneighbour") {
		mb := newMockCLA("b", &log)
		mb.peer = ids[2]
		d.ReportPeerAppeared(mb)
		adj[0][2] = true
	}
	var have [nn]bool
	var haveTs [nn]uint64
	nu := verif.Size("updates", 1, verif.Param("updates", 3))
	for u := 0; u < nu; u++ {
		src := 1 + verif.Choose(nm("src", u), 2)
		ts := uint64(1 + verif.Choose(nm("ts", u), 2))
		peers := map[bpv7.EndpointID]bpv7.DtnTime{}
		var row [nn]bool
		for j := src + 1; j < nn; j++ {
			if verif.Bool(nm("l"+nm("_", u)+"_", j)) {
				peers[ids[j]] = 0
				row[j] = true
			}
		}
		blk := bpv7.NewDTLSRBlock(bpv7.DTLSRPeerData{ID: ids[src], Timestamp: bpv7.DtnTime(ts), Peers: peers})
		b := dataBundle(names[src], dtlsrBroadcastAddress, uint64(u), func(bl *bpv7.BundleBuilder) { bl.Canonical(blk) })
		d.NotifyNewBundle(NewBundleDescriptorFromBundle(b, c.store))
		if !have[src] || ts > haveTs[src] {
			have[src], haveTs[src] = true, ts
			adj[src] = row
		}
	}
	d.recomputeCron()
	// reachability from each node
	reachFrom := func(s int) [nn]bool {
		var r [nn]bool
		r[s] = true
		for round := 0; round < nn; round++ {
			for i := 0; i < nn; i++ {
				for j := 0; j < nn; j++ {
					if r[i] && adj[i][j] {
						r[j] = true
					}
				}
			}
		}
		return r
	}
	r0 := reachFrom(0)
	d.dataMutex.RLock()
	table := d.routingTable
	d.dataMutex.RUnlock()
	for x := 1; x < nn; x++ {
		hop, ok := table[ids[x]]
		verif.Assert(ok == r0[x], "a destination is in the routing table exactly when the link-state graph known to the node contains a path to it")
		if !ok {
			continue
		}
		hi := -1
		for k := 1; k < nn; k++ {
			if ids[k] == hop {
				hi = k
			}
		}
		verif.Assert(hi > 0 && adj[0][hi], "the next hop is one of the node's own neighbours")
		if hi > 0 {
			verif.Assert(reachFrom(hi)[x], "the next hop lies on a path to the destination")
		}
	}
	verif.Reach("end")
}

// H20_Neighbours: the node's own link state maintained the way it happens: each of the neighbours a and b goes through
// one of the histories {never seen, appeared, appeared and lost, appeared, lost and appeared again}, with seconds of
// (virtual) time in between; both report a live link to d. After the recompute job: an own link is live (cost 0) exactly
// while the neighbour is connected - also after it had been lost before - and a lost one costs the time since the
// loss; d is in the table exactly when a neighbour was ever seen, and the next hop is a neighbour of minimum cost.
func H20_Neighbours() {
	var log []sendRec
	c, _ := coreWithPeers("dtlsr", 0, 0, &log)
	defer c.Close()
	dl := c.routing.(*DTLSR)
	ids := []bpv7.EndpointID{bpv7.MustNewEndpointID("dtn://a/"), bpv7.MustNewEndpointID("dtn://b/")}
	dst := bpv7.MustNewEndpointID("dtn://d/")
	clas := []*mockCLA{newMockCLA("a", &log), newMockCLA("b", &log)}
	clas[0].peer, clas[1].peer = ids[0], ids[1]
	var hist [2]int
	var lostAt [2]time.Time
	for i := 0; i < 2; i++ {
		hist[i] = verif.Choose(nm("hist", i), 4)
	}
	// phase 1: appearances; phase 2 (3 s later for a, 5 s later for b): losses; phase 3 (7 s later): re-appearances
	for i := 0; i < 2; i++ {
		if hist[i] >= 1 {
			dl.ReportPeerAppeared(clas[i])
		}
	}
	for i := 0; i < 2; i++ {
		time.Sleep(time.Duration(3+2*i) * time.Second)
		if hist[i] >= 2 {
			dl.ReportPeerDisappeared(clas[i])
			lostAt[i] = time.Now()
		}
	}
	time.Sleep(7 * time.Second)
	for i := 0; i < 2; i++ {
		if hist[i] == 3 {
			dl.ReportPeerAppeared(clas[i])
		}
	}
	time.Sleep(2 * time.Second)
	for i := 0; i < 2; i++ {
		blk := bpv7.NewDTLSRBlock(bpv7.DTLSRPeerData{ID: ids[i], Timestamp: 1, Peers: map[bpv7.EndpointID]bpv7.DtnTime{dst: 0}})
		b := dataBundle(ids[i].String(), dtlsrBroadcastAddress, uint64(i), func(bl *bpv7.BundleBuilder) { bl.Canonical(blk) })
		dl.NotifyNewBundle(NewBundleDescriptorFromBundle(b, c.store))
	}
	dl.recomputeCron()
	now := time.Now()
	// reference costs in milliseconds; -1 = no link
	var cost [2]int64
	for i := 0; i < 2; i++ {
		switch hist[i] {
		case 0:
			cost[i] = -1
		case 1, 3:
			cost[i] = 0
		case 2:
			cost[i] = now.Sub(lostAt[i]).Milliseconds()
		}
	}
	dl.dataMutex.RLock()
	hop, ok := dl.routingTable[dst]
	dl.dataMutex.RUnlock()
	verif.Assert(ok == (cost[0] >= 0 || cost[1] >= 0), "the destination is in the table exactly when a neighbour link is known")
	if ok {
		best := -1
		for i := 0; i < 2; i++ {
			if cost[i] >= 0 && (best < 0 || cost[i] < cost[best]) {
				best = i
			}
		}
		hi := -1
		for i := 0; i < 2; i++ {
			if hop == ids[i] {
				hi = i
			}
		}
		verif.Assert(hi >= 0 && cost[hi] >= 0, "the next hop is one of the node's own current or recently lost neighbours")
		if hi >= 0 && cost[hi] >= 0 {
			verif.Assert(cost[hi] == cost[best], "the next hop lies on a minimum-cost path: a live link costs nothing (also after it had been lost before), a lost one the time since the loss")
		}
	}
	verif.Reach("end")
}
