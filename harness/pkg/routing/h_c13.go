//go:build verif

package routing

import (
	"github.com/dtn7/dtn7-go/pkg/bpv7"
	"github.com/dtn7/dtn7-go/pkg/cla"
	"github.com/dtn7/dtn7-go/pkg/storage"
	verif "github.com/dtn7/dtn7-go/pkg/zzverif"
)

var uni = []string{"dtn://peer1/", "dtn://peer2/", "dtn://peer3/", "dtn://n4/", "dtn://n5/"}

// H13_Filter: filterCLAs with 0..4 connected senders (peers from a five-element universe, possibly two senders for one
// peer) and a sent list of 0..3 endpoints: no returned sender's peer is in the old sent list, no peer is returned
// twice, the new sent list is the old one plus the returned peers.
func H13_Filter() {
	var log []sendRec
	ns := verif.Size("senders", 0, 3)
	var clas []cla.ConvergenceSender
	for i := 0; i < ns; i++ {
		m := newMockCLA(nm("x", i), &log)
		m.peer = bpv7.MustNewEndpointID(uni[verif.Choose(nm("peer", i), 4)])
		clas = append(clas, m)
	}
	nsent := verif.Size("sent", 0, 2)
	var sent []bpv7.EndpointID
	for i := 0; i < nsent; i++ {
		sent = append(sent, bpv7.MustNewEndpointID(uni[verif.Choose(nm("s", i), 5)]))
	}
	bi := storage.BundleItem{Properties: map[string]interface{}{}}
	if nsent > 0 || verif.Bool("present") {
		bi.Properties["routing/epidemic/sent"] = append([]bpv7.EndpointID{}, sent...)
	}
	filtered, newSent := filterCLAs(bi, clas, "epidemic")
	for i, cs := range filtered {
		verif.Assert(!inList(sent, cs.GetPeerEndpointID()), "a peer in the sent list is never chosen")
		for j := 0; j < i; j++ {
			verif.Assert(filtered[j].GetPeerEndpointID() != cs.GetPeerEndpointID(), "no peer is chosen twice")
		}
		verif.Assert(inList(newSent, cs.GetPeerEndpointID()), "every chosen peer is recorded")
	}
	for _, e := range sent {
		verif.Assert(inList(newSent, e), "the sent list only grows")
	}
	for _, e := range newSent {
		chosen := false
		for _, cs := range filtered {
			chosen = chosen || cs.GetPeerEndpointID() == e
		}
		verif.Assert(inList(sent, e) || chosen, "nothing but chosen peers is added to the sent list")
	}
	for _, cs := range clas {
		verif.Assert(inList(newSent, cs.GetPeerEndpointID()), "every connected peer is either chosen or already in the sent list")
	}
	verif.Reach("end")
}

// receivedBundle: a bundle that arrived from peer `prev` (previous-node block), destined for a far node.
func receivedBundle(prev string, dst string, extra ...bpv7.CanonicalBlock) bpv7.Bundle {
	b := dataBundle("dtn://origin/app", dst, 0, func(bl *bpv7.BundleBuilder) { bl.PreviousNodeBlock(bpv7.MustNewEndpointID(prev)) })
	for _, cb := range extra {
		b.AddExtensionBlock(cb)
	}
	return b
}

// H13_Algorithms: for each replicating algorithm: a bundle received from peer1 while peer1..peer3 are connected: the
// algorithm never chooses peer1 (the previous node) and never a peer it chose before; a reported failure makes exactly
// that peer eligible again; after a node restart the memory of the store-backed algorithms is still there.
func H13_Algorithms() {
	algos := []string{"epidemic", "prophet", "dtlsr", "spray", "binary_spray"}
	algo := algos[verif.Choose("algo", 5)]
	var log []sendRec
	c, peers := coreWithPeers(algo, 4, 3, &log)
	defer func() { c.Close() }()
	dst := "dtn://far/inbox"
	var extra []bpv7.CanonicalBlock
	switch algo {
	case "dtlsr":
		dst = dtlsrBroadcastAddress
		// a broadcast bundle usually carries its originator's link-state data: none / data the node has not seen /
		// data that is not newer than what the node already holds for that originator (re-broadcast, late arrival)
		origin := bpv7.MustNewEndpointID("dtn://origin/")
		switch verif.Choose("linkstate", 3) {
		case 1:
			extra = append(extra, bpv7.NewCanonicalBlock(0, 0, bpv7.NewDTLSRBlock(bpv7.DTLSRPeerData{ID: origin, Timestamp: 5, Peers: map[bpv7.EndpointID]bpv7.DtnTime{}})))
		case 2:
			older := dataBundle("dtn://origin/", dtlsrBroadcastAddress, 7, func(bl *bpv7.BundleBuilder) {
				bl.Canonical(bpv7.NewDTLSRBlock(bpv7.DTLSRPeerData{ID: origin, Timestamp: 9, Peers: map[bpv7.EndpointID]bpv7.DtnTime{}}))
			})
			c.routing.NotifyNewBundle(NewBundleDescriptorFromBundle(older, c.store))
			extra = append(extra, bpv7.NewCanonicalBlock(0, 0, bpv7.NewDTLSRBlock(bpv7.DTLSRPeerData{ID: origin, Timestamp: 5, Peers: map[bpv7.EndpointID]bpv7.DtnTime{}})))
		}
	case "binary_spray":
		extra = append(extra, bpv7.NewCanonicalBlock(0, 0, bpv7.NewBinarySprayBlock(8)))
	}
	b := receivedBundle("dtn://peer1/", dst, extra...)
	bp := NewBundleDescriptorFromBundle(b, c.store)
	if p, ok := c.routing.(*Prophet); ok {
		// every peer advertises a better predictability for the destination than this node has
		for _, m := range peers {
			p.peerPredictabilities[m.peer] = map[bpv7.EndpointID]float64{b.PrimaryBlock.Destination: 0.5}
		}
	}
	c.routing.NotifyNewBundle(bp)
	chosen := map[bpv7.EndpointID]int{}
	dstCLA := newMockCLA("far", &log) // a sender to the bundle's destination node, not (or no longer) registered
	rounds := verif.Size("rounds", 1, 3)
	for r := 0; r < rounds; r++ {
		css, _ := c.routing.SenderForBundle(bp)
		for _, cs := range css {
			e := cs.GetPeerEndpointID()
			verif.Assert(e != peers[0].peer, "the bundle is never sent back to the peer it came from")
			verif.Assert(chosen[e] == 0, "a peer that was already chosen is not chosen again while the node holds the bundle")
			chosen[e]++
		}
		// one chosen transmission fails
		if len(css) > 0 && verif.Bool(nm("fail", r)) && algo != "dtlsr" {
			f := css[verif.Choose(nm("which", r), len(css))]
			c.routing.ReportFailure(bp, f)
			chosen[f.GetPeerEndpointID()]--
			again, _ := c.routing.SenderForBundle(bp)
			ok := false
			for _, cs := range again {
				e := cs.GetPeerEndpointID()
				verif.Assert(e != peers[0].peer && chosen[e] == 0, "after a failure only eligible peers are chosen")
				chosen[e]++
				ok = ok || cs == f
			}
			if algo != "binary_spray" && algo != "spray" {
				verif.Assert(ok, "a transmission reported as failed makes exactly that peer eligible again")
			}
		}
		// a failed direct delivery: Core.forward also reports failures of senders the algorithm never chose (the
		// destination node was connected and bypassed the algorithm); that makes nobody else eligible again
		if algo != "dtlsr" && verif.Bool(nm("dfail", r)) {
			c.routing.ReportFailure(bp, dstCLA)
			again, _ := c.routing.SenderForBundle(bp)
			for _, cs := range again {
				e := cs.GetPeerEndpointID()
				verif.Assert(e != peers[0].peer && chosen[e] == 0, "a failure reported for one peer makes no other peer eligible again")
				chosen[e]++
			}
		}
		if verif.Bool(nm("restart", r)) && (algo == "epidemic" || algo == "prophet" || algo == "dtlsr") {
			dir := c.store.BadgerDirParent()
			c.Close()
			conf := RoutingConf{Algorithm: algo}
			conf.DTLSRConf = DTLSRConfig{RecomputeTime: "30s", BroadcastTime: "30s", PurgeTime: "10m"}
			conf.ProphetConf = ProphetConfig{PInit: 0.75, Beta: 0.25, Gamma: 0.98, AgeInterval: "1m"}
			c2, err := NewCore(dir, bpv7.MustNewEndpointID("dtn://this/"), false, conf, nil)
			verif.Assert(err == nil, "node restarts")
			c = c2
			for _, m := range peers {
				m.ch = make(chan cla.ConvergenceStatus, 8)
				c.RegisterConvergable(m)
			}
			settle()
			if p, ok := c.routing.(*Prophet); ok {
				for _, m := range peers {
					p.peerPredictabilities[m.peer] = map[bpv7.EndpointID]float64{b.PrimaryBlock.Destination: 0.5}
				}
			}
			bp = NewBundleDescriptor(b.ID(), c.store)
		}
	}
	verif.Reach("end")
}
