//go:build verif

package routing

import (
	"github.com/dtn7/dtn7-go/pkg/bpv7"
	verif "github.com/dtn7/dtn7-go/pkg/zzverif"
)

func unit(name string) float64 {
	x := verif.F64(name)
	verif.Assume(x >= 0 && x <= 1) // also excludes NaN
	return x
}

func isUnit(x float64) bool { return verif.And(x >= 0, x <= 1) }

// H19_Encounter / H19_Age / H19_Transitivity: one update step from an arbitrary in-range state (constants and
// predictabilities anywhere in [0,1], including 0, 1 and denormals): the result stays in [0,1]; an encounter and
// the transitive update never lower a value, ageing never raises one. One inductive step covers sequences of any
// length.
func H19_Encounter() {
	a := bpv7.MustNewEndpointID("dtn://a/")
	p := &Prophet{predictabilities: map[bpv7.EndpointID]float64{}, config: ProphetConfig{PInit: unit("pinit")}}
	old := float64(0)
	if verif.Bool("known") {
		old = unit("old")
		p.predictabilities[a] = old
	}
	p.encounter(a)
	n := p.predictabilities[a]
	verif.Assert(isUnit(n), "encounter: the predictability stays within [0,1]")
	verif.Assert(n >= old, "encounter: never lowers a value")
	verif.Reach("end")
}

func H19_Age() {
	a := bpv7.MustNewEndpointID("dtn://a/")
	old := unit("old")
	p := &Prophet{predictabilities: map[bpv7.EndpointID]float64{a: old}, config: ProphetConfig{Gamma: unit("gamma")}}
	p.ageCron()
	n := p.predictabilities[a]
	verif.Assert(isUnit(n), "ageing: the predictability stays within [0,1]")
	verif.Assert(n <= old, "ageing: never raises a value")
	verif.Reach("end")
}

func H19_Transitivity() {
	a, b := bpv7.MustNewEndpointID("dtn://a/"), bpv7.MustNewEndpointID("dtn://b/")
	pa := unit("pa")
	old := float64(0)
	p := &Prophet{predictabilities: map[bpv7.EndpointID]float64{a: pa}, peerPredictabilities: map[bpv7.EndpointID]map[bpv7.EndpointID]float64{},
		config: ProphetConfig{Beta: unit("beta")}}
	if verif.Bool("known") {
		old = unit("old")
		p.predictabilities[b] = old
	}
	p.peerPredictabilities[a] = map[bpv7.EndpointID]float64{b: unit("pab")}
	p.transitivity(a)
	n := p.predictabilities[b]
	verif.Assert(isUnit(n), "transitivity: the predictability stays within [0,1]")
	verif.Assert(n >= old, "transitivity: never lowers a value")
	verif.Reach("end")
}

// H19_Gate: SenderForBundle on a real Core: a data bundle is offered to a peer only if that peer's advertised
// predictability for the destination is strictly greater than the node's own (ties and unknown peers = 0 are not
// enough) and the peer is not in the sent list; a metadata vector is imported only from a bundle addressed to this node.
func H19_Gate() {
	var log []sendRec
	c, peers := coreWithPeers("prophet", 0, 2, &log)
	defer c.Close()
	p := c.routing.(*Prophet)
	b := dataBundle("dtn://origin/app", "dtn://far/inbox", 0)
	dst := b.PrimaryBlock.Destination
	bp := NewBundleDescriptorFromBundle(b, c.store)
	own := float64(0)
	if verif.Bool("ownknown") {
		own = unit("own")
		p.predictabilities[dst] = own
	}
	var pp [2]float64
	for i, m := range peers {
		if verif.Bool(nm("peerknown", i)) {
			pp[i] = unit(nm("pp", i))
			p.peerPredictabilities[m.peer] = map[bpv7.EndpointID]float64{dst: pp[i]}
		}
	}
	p.NotifyNewBundle(bp)
	css, del := p.SenderForBundle(bp)
	verif.Assert(!del, "prophet keeps data bundles")
	for i, m := range peers {
		sel := false
		for _, cs := range css {
			sel = sel || cs == m
		}
		verif.Assert(sel == (pp[i] > own), "a peer is chosen exactly when its predictability for the destination is strictly greater than the node's own")
	}
	again, _ := p.SenderForBundle(bp)
	verif.Assert(len(again) == 0, "a peer that was chosen is not chosen again")
	verif.Reach("end")
}

// H19_Import: a summary vector is imported only from a bundle addressed to this node.
func H19_Import() {
	var log []sendRec
	c, _ := coreWithPeers("prophet", 0, 0, &log)
	defer c.Close()
	p := c.routing.(*Prophet)
	forMe := verif.Bool("forme")
	dst := "dtn://other/"
	if forMe {
		dst = "dtn://this/"
	}
	x := bpv7.MustNewEndpointID("dtn://x/")
	blk := bpv7.NewProphetBlock(map[bpv7.EndpointID]float64{x: unit("px")})
	mb := dataBundle("dtn://peer1/", dst, 0, func(bl *bpv7.BundleBuilder) { bl.Canonical(blk) })
	bp := NewBundleDescriptorFromBundle(mb, c.store)
	p.NotifyNewBundle(bp)
	_, imported := p.peerPredictabilities[bpv7.MustNewEndpointID("dtn://peer1/")]
	verif.Assert(imported == forMe, "a summary vector is imported exactly when the bundle is addressed to this node")
	for _, v := range p.predictabilities {
		verif.Assert(isUnit(v), "own predictabilities stay within [0,1] after importing a vector")
	}
	verif.Reach("end")
}

// H19_MulContract: the contract under which the quick tier abstracts floating-point multiplications: for binary64
// x, y in [0,1] the rounded product lies in [0, min(x, y)].
func H19_MulContract() {
	x, y := unit("x"), unit("y")
	m := x * y
	verif.Assert(verif.And(m >= 0, m <= x, m <= y), "for x, y in [0,1]: 0 <= x*y <= min(x, y) in binary64 round-to-nearest")
	verif.Reach("end")
}

// H19_GateVectors: the forwarding gate with the peer's vector imported the way it arrives: peer 1 sends zero to two
// summary vectors in sequence (each may or may not name the bundle's destination, with an arbitrary predictability in
// [0,1]; the second may also name another node only). What counts as "advertised" is the most recent vector: a
// destination it no longer names is advertised with 0. A data bundle is then offered to peer 1 exactly when that value
// is strictly greater than the predictability the node itself holds for the destination at that moment.
// Parameters choose which of the values are symbolic binary64 (each costs ~0.5 s per query): quick explores the
// structure (which vectors name what, in which order) with values from small sets that include ties; thorough makes
// the node's own and the last advertised value symbolic.
func H19_GateVectors() {
	var log []sendRec
	c, peers := coreWithPeers("prophet", 0, 1, &log)
	defer c.Close()
	p := c.routing.(*Prophet)
	b := dataBundle("dtn://origin/app", "dtn://far/inbox", 0)
	dst := b.PrimaryBlock.Destination
	other := bpv7.MustNewEndpointID("dtn://other/")
	if verif.Bool("ownknown") {
		if verif.Param("symown", 0) == 1 {
			p.predictabilities[dst] = unit("own")
		} else {
			p.predictabilities[dst] = []float64{0, 0.25, 0.5}[verif.Choose("ownc", 3)]
		}
	}
	if verif.Param("met", 0) == 1 && verif.Bool("met") {
		// the node has met peer 1 (transitive updates then have an effect)
		p.predictabilities[peers[0].peer] = unit("ppeer")
	}
	adv := float64(0)
	nvec := verif.Size("vectors", 0, 2)
	for i := 0; i < nvec; i++ {
		vec := map[bpv7.EndpointID]float64{}
		adv = 0
		last := i == nvec-1 // only the most recent vector carries symbolic values (keeps the floating-point queries few)
		if verif.Bool(nm("namesdst", i)) {
			adv = 0.875
			if last && verif.Param("symadv", 0) == 1 {
				adv = unit(nm("adv", i))
			} else if last {
				adv = []float64{0, 0.25, 1}[verif.Choose(nm("advc", i), 3)]
			}
			vec[dst] = adv
		}
		if verif.Bool(nm("namesother", i)) {
			vec[other] = 0.375
			if last && verif.Param("symother", 0) == 1 {
				vec[other] = unit(nm("oth", i))
			}
		}
		mb := dataBundle(peers[0].peer.String(), "dtn://this/", uint64(i+1), func(bl *bpv7.BundleBuilder) { bl.Canonical(bpv7.NewProphetBlock(vec)) })
		p.NotifyNewBundle(NewBundleDescriptorFromBundle(mb, c.store))
	}
	for _, v := range p.predictabilities {
		verif.Assert(isUnit(v), "own predictabilities stay within [0,1] after importing vectors")
	}
	bp := NewBundleDescriptorFromBundle(b, c.store)
	p.NotifyNewBundle(bp)
	own := p.predictabilities[dst]
	css, _ := p.SenderForBundle(bp)
	verif.Assert((len(css) == 1) == (adv > own), "a peer is chosen exactly when the predictability it advertised last for the destination is strictly greater than the node's own")
	verif.Reach("end")
}
