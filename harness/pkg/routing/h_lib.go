//go:build verif

package routing

import (
	"sync"
	"bytes"
	"errors"
	"time"

	"github.com/dtn7/dtn7-go/pkg/bpv7"
	"github.com/dtn7/dtn7-go/pkg/cla"
	verif "github.com/dtn7/dtn7-go/pkg/zzverif"
)

func nm(s string, i int) string { return s + string(rune('0'+i)) }

var logMutex sync.Mutex

// sendRec is one call of ConvergenceSender.Send observed by a mock convergence layer.
type sendRec struct {
	peer string
	enc  []byte
	b    bpv7.Bundle
	ok   bool
	at   time.Time
}

// mockCLA is a scripted convergence sender: Send serialises the bundle (as real CLAs do), parses it back with
// the real parser and returns the outcome the harness chose.
type mockCLA struct {
	addr      string
	peer      bpv7.EndpointID
	ch        chan cla.ConvergenceStatus
	fail      bool // outcome of the next sends
	log       *[]sendRec
	started   bool
}

func newMockCLA(name string, log *[]sendRec) *mockCLA {
	return &mockCLA{addr: "mock://" + name, peer: bpv7.MustNewEndpointID("dtn://" + name + "/"), ch: make(chan cla.ConvergenceStatus, 8), log: log}
}

func (m *mockCLA) Start() (error, bool)             { m.started = true; return nil, false }
func (m *mockCLA) Close() error                     { m.started = false; return nil }
func (m *mockCLA) Channel() chan cla.ConvergenceStatus { return m.ch }
func (m *mockCLA) Address() string                  { return m.addr }
func (m *mockCLA) IsPermanent() bool                { return false }
func (m *mockCLA) GetPeerEndpointID() bpv7.EndpointID { return m.peer }
func (m *mockCLA) String() string                   { return m.addr }
func (m *mockCLA) Send(b bpv7.Bundle) error {
	var w bytes.Buffer
	if err := b.WriteBundle(&w); err != nil {
		verif.Assert(false, "a bundle handed to a convergence layer serialises")
		return err
	}
	enc := append([]byte{}, w.Bytes()...)
	pb, perr := bpv7.ParseBundle(bytes.NewReader(enc))
	verif.Assert(perr == nil, "a bundle handed to a convergence layer parses as a valid bundle")
	// Core.forward sends to several peers from one goroutine each: natively the appends to the shared log would race
	logMutex.Lock()
	*m.log = append(*m.log, sendRec{peer: m.addr, enc: enc, b: pb, ok: !m.fail, at: time.Now()})
	logMutex.Unlock()
	if m.fail {
		return errors.New("mock: send failed")
	}
	return nil
}

// testCore builds a real Core (real store code over the store/file models, real CLA manager, cron, id keeper).
func testCore(algo string, dir string) *Core {
	conf := RoutingConf{Algorithm: algo}
	if algo == "sensor-mule" {
		// a data mule running epidemic routing underneath; peer 1 is a sensor node
		conf.SensorMuleConf = SensorNetworkMuleConfig{Algorithm: &RoutingConf{Algorithm: "epidemic"}, SensorNodeRegex: "^dtn://peer1/"}
	}
	conf.SprayConf.Multiplicity = uint64(verif.Param("mult", 3))
	conf.DTLSRConf = DTLSRConfig{RecomputeTime: "30s", BroadcastTime: "30s", PurgeTime: "10m"}
	conf.ProphetConf = ProphetConfig{PInit: 0.75, Beta: 0.25, Gamma: 0.98, AgeInterval: "1m"}
	c, err := NewCore(dir, bpv7.MustNewEndpointID("dtn://this/"), false, conf, nil)
	if err != nil {
		verif.Assert(false, "core starts")
	}
	return c
}

// settle lets the node's goroutines (core handler, CLA manager, agents) run until they block again.
func settle() { time.Sleep(time.Millisecond) }

func dataBundle(src, dst string, seq uint64, opts ...func(*bpv7.BundleBuilder)) bpv7.Bundle {
	bl := bpv7.Builder().Source(src).Destination(dst).CreationTimestampNow().Lifetime("1h").PayloadBlock([]byte("payload"))
	for _, o := range opts {
		o(bl)
	}
	b, err := bl.Build()
	if err != nil {
		verif.Assert(false, "bundle builds")
	}
	// every test bundle is created in the millisecond at which the frozen clock starts
	b.PrimaryBlock.CreationTimestamp = bpv7.NewCreationTimestamp(bpv7.DtnTime(311209200000), seq)
	return b
}

func encOf(b bpv7.Bundle) []byte {
	var w bytes.Buffer
	_ = b.WriteBundle(&w)
	return append([]byte{}, w.Bytes()...)
}
