//go:build verif

package routing

import (
	"time"

	"github.com/dtn7/dtn7-go/pkg/bpv7"
	verif "github.com/dtn7/dtn7-go/pkg/zzverif"
)

func mkBundle(ext ...bpv7.CanonicalBlock) bpv7.Bundle {
	b, err := bpv7.Builder().Source("dtn://src/").Destination("dtn://dst/").CreationTimestampEpoch().Lifetime("24h").
		BundleAgeBlock(uint64(0)).PayloadBlock([]byte("hello")).Build()
	if err != nil {
		verif.Assert(false, "template bundle builds")
	}
	for _, cb := range ext {
		b.AddExtensionBlock(cb)
	}
	return b
}

// H06_Age: UpdateBundleAge adds the time the bundle spent at this node, in milliseconds, to the age block.
// Residence time = s seconds + m milliseconds + u microseconds (symbolic, up to 10^4 s).
func H06_Age() {
	s := verif.U64("s")
	m := verif.U64("m")
	u := verif.U64("u")
	verif.Assume(s <= 10000 && m <= 999 && u <= 999)
	old := verif.U64("age")
	verif.Assume(old < 1<<40)
	b := mkBundle()
	ab, err := b.ExtensionBlock(bpv7.ExtBlockTypeBundleAgeBlock)
	if err != nil {
		verif.Assert(false, "has age block")
		return
	}
	*ab.Value.(*bpv7.BundleAgeBlock) = bpv7.BundleAgeBlock(old)
	now := time.Now()
	recv := time.Unix(now.Unix()-int64(s)-1, 1000000000-int64(m)*1000000-int64(u)*1000+int64(now.Nanosecond()))
	d := BundleDescriptor{Id: b.ID(), Timestamp: recv, bndl: &b}
	got, uerr := d.UpdateBundleAge()
	verif.Assert(uerr == nil, "age block updated")
	verif.Assert(got == old+s*1000+m, "bundle age grows by the residence time expressed in milliseconds")
	verif.Assert(ab.Value.(*bpv7.BundleAgeBlock).Age() == got, "age block holds the new age")
	verif.Reach("end")
}
