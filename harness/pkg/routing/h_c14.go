//go:build verif

package routing

import (
	"github.com/dtn7/dtn7-go/pkg/bpv7"
	verif "github.com/dtn7/dtn7-go/pkg/zzverif"
)

// H14_IdKeeper: from an arbitrary counter state, two bundles with the same source and creation time (including the
// zero time) get different sequence numbers.
func H14_IdKeeper() {
	idk := NewIdKeeper()
	src := bpv7.MustNewEndpointID("dtn://this/app")
	t := bpv7.DtnTime(verif.U64("time"))
	// the keeper remembers creation times of the last day (and the zero time); older ones are outside its contract
	now := uint64(bpv7.DtnTimeNow())
	verif.Assume(uint64(t) == 0 || uint64(t) >= now-86400000)
	pre := verif.U64("state")
	if verif.Bool("known") {
		idk.data[idTuple{source: src, time: t}] = pre
	}
	mk := func() bpv7.Bundle {
		pb := bpv7.NewPrimaryBlock(0, bpv7.MustNewEndpointID("dtn://dst/"), src, bpv7.NewCreationTimestamp(t, 0), 1000)
		return bpv7.MustNewBundle(pb, []bpv7.CanonicalBlock{bpv7.NewCanonicalBlock(1, 0, bpv7.NewPayloadBlock([]byte("x")))})
	}
	a, b := mk(), mk()
	idk.update(&a)
	idk.update(&b)
	verif.Assume(pre < 1<<63)
	verif.Assert(a.PrimaryBlock.CreationTimestamp.SequenceNumber() != b.PrimaryBlock.CreationTimestamp.SequenceNumber(), "two bundles of one source and creation time get different sequence numbers")
	verif.Assert(a.ID() != b.ID(), "and therefore different bundle IDs")
	verif.Reach("end")
}

// H14_Send: bundles the node sends on behalf of applications or itself, created in the same millisecond (or with the
// zero creation time), through SendBundle with and without a connected peer: they are filed under different keys,
// each key's stored bundle is the one submitted, and the sequence number that is stored is the one transmitted.
func H14_Send() {
	var log []sendRec
	k := verif.Size("peers", 0, 1)
	c, _ := coreWithPeers("epidemic", 0, k, &log)
	defer c.Close()
	zero := verif.Bool("zerotime")
	n := verif.Size("bundles", 2, 3)
	var ids []bpv7.BundleID
	for i := 0; i < n; i++ {
		var b bpv7.Bundle
		if zero {
			b2, err := bpv7.Builder().Source("dtn://this/app").Destination("dtn://far/inbox").CreationTimestampEpoch().Lifetime("1h").
				BundleAgeBlock(uint64(0)).PayloadBlock([]byte{byte('A' + i)}).Build()
			verif.Assert(err == nil, "bundle builds")
			b = b2
		} else {
			b = dataBundle("dtn://this/app", "dtn://far/inbox", 0)
			b.CanonicalBlocks[len(b.CanonicalBlocks)-1].Value = bpv7.NewPayloadBlock([]byte{byte('A' + i)})
		}
		c.SendBundle(&b)
		ids = append(ids, b.ID())
	}
	for i := range ids {
		for j := 0; j < i; j++ {
			verif.Assert(ids[i] != ids[j], "distinct bundles leave the submission path under different IDs")
		}
		bi, err := c.store.QueryId(ids[i])
		verif.Assert(err == nil, "every submitted bundle is filed in the store")
		if err == nil {
			sb, lerr := bi.Parts[0].Load()
			verif.Assert(lerr == nil, "the filed bundle loads")
			pl, _ := sb.PayloadBlock()
			verif.Assert(pl.Value.(*bpv7.PayloadBlock).Data()[0] == byte('A'+i), "each key holds the bundle that was submitted under it")
			verif.Assert(sb.ID() == ids[i], "the stored sequence number is the assigned one")
		}
	}
	// what was transmitted
	for _, r := range log {
		found := false
		for i := range ids {
			if r.b.ID() == ids[i] {
				found = true
				pl, _ := r.b.PayloadBlock()
				verif.Assert(pl.Value.(*bpv7.PayloadBlock).Data()[0] == byte('A'+i), "the transmitted sequence number belongs to the transmitted bundle")
			}
		}
		verif.Assert(found, "every transmitted bundle carries an assigned ID")
	}
	if k == 1 {
		verif.Assert(len(log) == n, "with a connected peer every bundle is transmitted")
	}
	verif.Reach("end")
}

// H14_Restart: the node has sent up to four bundles of one source and creation time (same millisecond or the zero
// time); any subset of them has left the store since (delivered, expired); the node may have restarted (the id keeper
// forgets, the store does not). One to three further bundles of the same source and creation time are then submitted:
// each gets an ID that differs from every other new one and from every bundle still in the store, every stored key
// still holds the bundle that was filed under it, and nothing already stored is overwritten. Optionally a bundle of
// another source with the other kind of creation time (timed / zero) is sent in between.
func H14_Restart() {
	var log []sendRec
	dir := verif.TempDir("store")
	c := testCore("epidemic", dir)
	defer func() { c.Close() }()
	zero := verif.Bool("zerotime")
	mk := func(tag byte) bpv7.Bundle {
		if zero {
			b, err := bpv7.Builder().Source("dtn://this/app").Destination("dtn://far/inbox").CreationTimestampEpoch().Lifetime("1h").
				BundleAgeBlock(uint64(0)).PayloadBlock([]byte{tag}).Build()
			verif.Assert(err == nil, "bundle builds")
			return b
		}
		b := dataBundle("dtn://this/app", "dtn://far/inbox", 0)
		b.CanonicalBlocks[len(b.CanonicalBlocks)-1].Value = bpv7.NewPayloadBlock([]byte{tag})
		return b
	}
	type rec struct {
		id     bpv7.BundleID
		tag    byte
		stored bool
	}
	var all []*rec
	nOld := verif.Size("old", 0, verif.Param("old", 4))
	for i := 0; i < nOld; i++ {
		b := mk(byte('a' + i))
		c.SendBundle(&b)
		all = append(all, &rec{b.ID(), byte('a' + i), true})
	}
	for i, r := range all {
		if verif.Bool(nm("gone", i)) {
			verif.Assert(c.store.Delete(r.id) == nil, "delete works")
			r.stored = false
		}
	}
	restarted := verif.Bool("restart")
	if restarted {
		c.Close()
		c = testCore("epidemic", dir)
	}
	if verif.Size("peers", 0, 1) == 1 {
		p := newMockCLA("peer1", &log)
		c.RegisterConvergable(p)
		settle()
	}
	if verif.Bool("othertraffic") {
		// in between the node sends a bundle of another source with the other kind of creation time (a clock-less one
		// among timed ones, a timed one - like every status report - among clock-less ones)
		var ob bpv7.Bundle
		if zero {
			ob = dataBundle("dtn://this/other", "dtn://far/inbox", 0)
		} else {
			var oerr error
			ob, oerr = bpv7.Builder().Source("dtn://this/other").Destination("dtn://far/inbox").CreationTimestampEpoch().Lifetime("1h").
				BundleAgeBlock(uint64(0)).PayloadBlock([]byte{'o'}).Build()
			verif.Assert(oerr == nil, "bundle builds")
		}
		c.SendBundle(&ob)
		settle()
	}
	first := len(all)
	nNew := verif.Size("new", 1, verif.Param("new", 3))
	for i := 0; i < nNew; i++ {
		b := mk(byte('A' + i))
		c.SendBundle(&b)
		settle()
		nr := &rec{b.ID(), byte('A' + i), true}
		for j, r := range all {
			if r.stored || j >= first || !restarted {
				verif.Assert(r.id != nr.id, "a new bundle gets an ID no other bundle of this node has (in the store, or since the last start)")
			}
		}
		all = append(all, nr)
	}
	for _, r := range all {
		if !r.stored {
			continue
		}
		bi, err := c.store.QueryId(r.id)
		verif.Assert(err == nil, "every bundle sent and not removed is filed in the store")
		if err == nil {
			sb, lerr := bi.Parts[0].Load()
			verif.Assert(lerr == nil, "the filed bundle loads")
			pl, _ := sb.PayloadBlock()
			verif.Assert(pl != nil && pl.Value.(*bpv7.PayloadBlock).Data()[0] == r.tag, "each key holds the bundle that was filed under it")
			verif.Assert(sb.ID() == r.id, "the stored sequence number is the assigned one")
		}
	}
	for _, lr := range log {
		for _, r := range all {
			if lr.b.ID() == r.id && r.stored {
				pl, _ := lr.b.PayloadBlock()
				verif.Assert(pl.Value.(*bpv7.PayloadBlock).Data()[0] == r.tag, "the transmitted sequence number belongs to the transmitted bundle")
			}
		}
	}
	verif.Reach("end")
}

// H14_Concurrent: "or are submitted concurrently": two goroutines submit one bundle each at the same moment - same
// source, same creation time (same millisecond or the zero time) - with the scheduler switching goroutines at every
// unlock and every store call: the two bundles get different IDs, each is filed under its own key with its own payload,
// and what is transmitted carries the stored sequence number.
func H14_Concurrent() {
	var log []sendRec
	k := verif.Size("peers", 0, 1)
	c, _ := coreWithPeers("epidemic", 0, k, &log)
	defer c.Close()
	zero := verif.Bool("zerotime")
	mk := func(tag byte) bpv7.Bundle {
		if zero {
			b, err := bpv7.Builder().Source("dtn://this/app").Destination("dtn://far/inbox").CreationTimestampEpoch().Lifetime("1h").
				BundleAgeBlock(uint64(0)).PayloadBlock([]byte{tag}).Build()
			verif.Assert(err == nil, "bundle builds")
			return b
		}
		b := dataBundle("dtn://this/app", "dtn://far/inbox", 0)
		b.CanonicalBlocks[len(b.CanonicalBlocks)-1].Value = bpv7.NewPayloadBlock([]byte{tag})
		return b
	}
	bs := []bpv7.Bundle{mk('A'), mk('B')}
	done := make(chan struct{}, 2)
	for i := range bs {
		go func(i int) { c.SendBundle(&bs[i]); done <- struct{}{} }(i)
	}
	<-done
	<-done
	settle()
	verif.Assert(bs[0].ID() != bs[1].ID(), "bundles submitted at the same moment get different IDs")
	for i := range bs {
		bi, err := c.store.QueryId(bs[i].ID())
		verif.Assert(err == nil, "every submitted bundle is filed in the store")
		if err == nil {
			sb, lerr := bi.Parts[0].Load()
			verif.Assert(lerr == nil, "the filed bundle loads")
			pl, _ := sb.PayloadBlock()
			verif.Assert(pl != nil && pl.Value.(*bpv7.PayloadBlock).Data()[0] == byte('A'+i), "each key holds the bundle that was submitted under it")
		}
	}
	for _, r := range log {
		for i := range bs {
			if r.b.ID() == bs[i].ID() {
				pl, _ := r.b.PayloadBlock()
				verif.Assert(pl.Value.(*bpv7.PayloadBlock).Data()[0] == byte('A'+i), "the transmitted sequence number belongs to the transmitted bundle")
			}
		}
	}
	verif.Reach("end")
}
