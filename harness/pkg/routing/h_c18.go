//go:build verif

package routing

import (
	"github.com/dtn7/dtn7-go/pkg/bpv7"
	"github.com/dtn7/dtn7-go/pkg/cla"
	verif "github.com/dtn7/dtn7-go/pkg/zzverif"
)

// coreWithPeers: a real Core with k connected scripted peers.
func coreWithPeers(algo string, mult uint64, k int, log *[]sendRec) (*Core, []*mockCLA) {
	conf := RoutingConf{Algorithm: algo}
	conf.SprayConf.Multiplicity = mult
	conf.DTLSRConf = DTLSRConfig{RecomputeTime: "30s", BroadcastTime: "30s", PurgeTime: "10m"}
	conf.ProphetConf = ProphetConfig{PInit: 0.75, Beta: 0.25, Gamma: 0.98, AgeInterval: "1m"}
	c, err := NewCore(verif.TempDir("store"), bpv7.MustNewEndpointID("dtn://this/"), false, conf, nil)
	if err != nil {
		verif.Assert(false, "core starts")
	}
	var peers []*mockCLA
	for i := 0; i < k; i++ {
		p := newMockCLA(nm("peer", i+1), log)
		c.RegisterConvergable(p)
		peers = append(peers, p)
	}
	settle()
	return c, peers
}

func inList(l []bpv7.EndpointID, e bpv7.EndpointID) bool {
	for _, x := range l {
		if x == e {
			return true
		}
	}
	return false
}

func noDup(l []bpv7.EndpointID) bool {
	for i := range l {
		for j := 0; j < i; j++ {
			if l[i] == l[j] {
				return false
			}
		}
	}
	return true
}

// H18_Spray: spray-and-wait, budget L = 1..maxL, 0..maxpeers connected peers (quick 6 and 5, thorough 8 and 6), a locally originated bundle; steps of
// {select senders, one selected transmission fails}: the per-bundle invariant remaining + |peers holding or being
// sent a copy| = L with remaining >= 1 holds after every step; at most remaining-1 peers are selected, none twice;
// a failure gives its copy back and makes exactly that peer eligible again.
func H18_Spray() {
	L := uint64(verif.Size("L", 1, verif.Param("maxL", 4)))
	k := verif.Size("peers", 0, verif.Param("maxpeers", 3))
	var log []sendRec
	c, peers := coreWithPeers("spray", L, k, &log)
	defer c.Close()
	sw := c.routing.(*SprayAndWait)
	b := dataBundle("dtn://this/app", "dtn://far/inbox", 0)
	bp := NewBundleDescriptorFromBundle(b, c.store)
	sw.NotifyNewBundle(bp)
	md := func() sprayMetaData { return sw.bundleData[bp.Id] }
	verif.Assert(md().remainingCopies == L && len(md().sent) == 0, "a local bundle starts with the full budget")
	steps := verif.Size("steps", 1, verif.Param("maxsteps", 3))
	for s := 0; s < steps; s++ {
		before := md()
		if verif.Bool(nm("select", s)) || len(before.sent) == 0 {
			css, del := sw.SenderForBundle(bp)
			verif.Assert(!del, "spray keeps the bundle")
			verif.Assert(before.remainingCopies >= 1 && uint64(len(css)) <= before.remainingCopies-1, "at most remaining-1 peers are selected")
			for i, cs := range css {
				verif.Assert(!inList(before.sent, cs.GetPeerEndpointID()), "a peer that already holds a copy is not selected again")
				for j := 0; j < i; j++ {
					verif.Assert(css[j] != cs, "no peer is selected twice")
				}
			}
		} else {
			// one of the peers in the sent list reports a failed transmission
			which := verif.Choose(nm("failed", s), len(before.sent))
			var failed cla.ConvergenceSender
			for _, p := range peers {
				if p.peer == before.sent[which] {
					failed = p
				}
			}
			sw.ReportFailure(bp, failed)
			after := md()
			verif.Assert(after.remainingCopies == before.remainingCopies+1, "a failed transmission gives its copy back")
			verif.Assert(!inList(after.sent, failed.GetPeerEndpointID()) && len(after.sent) == len(before.sent)-1, "exactly the failed peer becomes eligible again")
		}
		m := md()
		verif.Assert(m.remainingCopies+uint64(len(m.sent)) == L, "budget invariant: copies kept + copies handed out = L")
		verif.Assert(m.remainingCopies >= 1, "the node keeps at least one copy")
		verif.Assert(noDup(m.sent), "no peer is recorded twice")
	}
	verif.Reach("end")
}

// H18_SprayConcurrentFailures: two transmissions of one bundle fail at the same moment (two goroutines, the scheduler
// switches at every unlock): both copies are given back.
func H18_SprayConcurrentFailures() {
	var log []sendRec
	c, peers := coreWithPeers("spray", 4, 2, &log)
	defer c.Close()
	sw := c.routing.(*SprayAndWait)
	b := dataBundle("dtn://this/app", "dtn://far/inbox", 0)
	bp := NewBundleDescriptorFromBundle(b, c.store)
	sw.NotifyNewBundle(bp)
	css, _ := sw.SenderForBundle(bp)
	verif.Assert(len(css) == 2, "both peers are selected")
	done := make(chan struct{}, 2)
	for _, p := range peers {
		go func(p *mockCLA) { sw.ReportFailure(bp, p); done <- struct{}{} }(p)
	}
	<-done
	<-done
	m := sw.bundleData[bp.Id]
	verif.Observe("remaining", m.remainingCopies)
	verif.Assert(m.remainingCopies == 4 && len(m.sent) == 0, "failures reported at the same moment give back both copies")
	verif.Reach("end")
}

// H18_Binary: binary spray: copies announced in the transmitted bundle + copies kept = copies held before, half
// (rounded down) is sent; a single copy is never given away; a failed transmission restores the sender's count.
func H18_Binary() {
	held := verif.U64("held")
	verif.Assume(held >= 1 && held <= 1<<40)
	k := verif.Size("peers", 0, 2)
	var log []sendRec
	c, peers := coreWithPeers("binary_spray", 8, k, &log)
	defer c.Close()
	bs := c.routing.(*BinarySpray)
	b := dataBundle("dtn://this/app", "dtn://far/inbox", 0)
	bp := NewBundleDescriptorFromBundle(b, c.store)
	bs.NotifyNewBundle(bp)
	verif.Assert(bs.bundleData[bp.Id].remainingCopies == 8, "a local bundle starts with the configured budget")
	bs.bundleData[bp.Id] = sprayMetaData{sent: []bpv7.EndpointID{}, remainingCopies: held} // arbitrary state: held copies
	css, del := bs.SenderForBundle(bp)
	verif.Assert(!del, "binary spray keeps the bundle")
	m := bs.bundleData[bp.Id]
	if held < 2 || k == 0 {
		verif.Assert(len(css) == 0 && m.remainingCopies == held, "a node holding a single copy (or without peers) gives nothing away")
		verif.Reach("nothing")
		return
	}
	verif.Assert(len(css) == 1, "binary spray selects one peer at a time")
	blk, err := bp.MustBundle().ExtensionBlock(bpv7.ExtBlockTypeBinarySprayBlock)
	verif.Assert(err == nil, "the transmitted bundle announces its copies")
	sentCopies := blk.Value.(*bpv7.BinarySprayBlock).RemainingCopies()
	verif.Assert(sentCopies == held/2, "half of the copies (rounded down) is sent")
	verif.Assert(sentCopies+m.remainingCopies == held, "copies announced + copies kept = copies held before")
	verif.Assert(m.remainingCopies >= 1, "the node keeps at least one copy")
	// the transmission fails
	var failed *mockCLA
	for _, p := range peers {
		if p == css[0] {
			failed = p
		}
	}
	bs.ReportFailure(bp, failed)
	m2 := bs.bundleData[bp.Id]
	verif.Assert(m2.remainingCopies == held, "a failed transmission restores the sender's count")
	verif.Assert(!inList(m2.sent, failed.peer), "the failed peer is eligible again")
	verif.Reach("end")
}
