//go:build verif

package routing

import (
	"bytes"
	"time"

	"github.com/dtn7/dtn7-go/pkg/bpv7"
	"github.com/dtn7/dtn7-go/pkg/cla"
	verif "github.com/dtn7/dtn7-go/pkg/zzverif"
)

// accepted is the harness's own record of a bundle the node accepted for forwarding.
type accepted struct {
	id      bpv7.BundleID
	payload []byte
	dest    bpv7.EndpointID
	okSend  bool // a convergence layer reported a successful transmission
	from    int  // 1: received from peer 1 (which therefore has it), 0: submitted locally
}

// node is a real Core plus the scripted peers around it.
type node struct {
	c     *Core
	dir   string
	algo  string
	log   []sendRec
	peers [2]*mockCLA
	up    [2]bool
	acc   []*accepted
	lastEv int
}

// delivered: a transmission of a to peer i succeeded before log position `before`.
func (n *node) delivered(a *accepted, i int, before int) bool {
	for _, r := range n.log[:before] {
		if r.ok && r.peer == n.peers[i].addr && r.b.ID().Scrub() == a.id.Scrub() {
			return true
		}
	}
	return false
}

func newNode(algo string) *node {
	n := &node{algo: algo, dir: verif.TempDir("store")}
	n.c = testCore(algo, n.dir)
	n.peers[0] = newMockCLA("peer1", &n.log)
	n.peers[1] = newMockCLA("peer2", &n.log)
	return n
}

func (n *node) peerAppears(i int) {
	if n.up[i] {
		return
	}
	n.c.RegisterConvergable(n.peers[i])
	n.up[i] = true
	// a started convergence layer announces its peer
	n.peers[i].ch <- cla.NewConvergencePeerAppeared(n.peers[i], n.peers[i].peer)
	settle()
}

func (n *node) peerDisappears(i int) {
	if !n.up[i] {
		return
	}
	n.c.claManager.Unregister(n.peers[i])
	n.up[i] = false
	settle()
}

func (n *node) restart() {
	n.c.Close()
	n.c = testCore(n.algo, n.dir)
	for i := range n.peers {
		n.up[i] = false
		n.peers[i].ch = make(chan cla.ConvergenceStatus, 8)
	}
}

// noteSends updates the harness's record from the mock convergence layers' log.
func (n *node) noteSends(from int) {
	for _, r := range n.log[from:] {
		for _, a := range n.acc {
			if r.ok && r.b.ID().Scrub() == a.id.Scrub() {
				a.okSend = true
			}
		}
	}
}

// checkRetention: every accepted bundle without a successful transmission is in the store, loads as itself, and is
// marked for retry.
func (n *node) checkRetention(when string) {
	pend, perr := n.c.store.QueryPending()
	verif.Assert(perr == nil, "pending query works")
	for _, a := range n.acc {
		if a.okSend {
			continue
		}
		bi, err := n.c.store.QueryId(a.id)
		verif.Assert(err == nil, "an accepted bundle without a successful transmission stays in the store")
		if err != nil {
			return
		}
		var b bpv7.Bundle
		var lerr error
		if bi.Fragmented {
			b, lerr = bi.Load()
		} else {
			b, lerr = bi.Parts[0].Load()
		}
		verif.Assert(lerr == nil, "the stored bundle loads")
		pl, _ := b.PayloadBlock()
		verif.Assert(pl != nil && bytes.Equal(pl.Value.(*bpv7.PayloadBlock).Data(), a.payload) && b.PrimaryBlock.Destination == a.dest, "the stored bundle is the accepted one")
		isPending := false
		for _, p := range pend {
			if p.Id == bi.Id {
				isPending = true
			}
		}
		verif.Assert(isPending, "an accepted bundle without a successful transmission is marked for retry")
	}
}

// H05_History: event histories over a real Core: application submits a bundle, a peer appears / disappears, a send
// succeeds or fails (chosen per event), the pending-retry job fires, the store-cleaning job fires, the node
// restarts. Same-millisecond submissions occur (the clock only moves with the ticks).
func H05_History() {
	algos := []string{"epidemic", "spray", "binary_spray", "dtlsr", "prophet"}
	n := newNode(algos[verif.Param("algo", 0)])
	defer func() { n.c.Close() }()
	depth := verif.Size("depth", 1, verif.Param("depth", 3))
	// alphabet 0: the six basic events; 1: also the store-cleaning tick, a clock-less submission (zero creation time
	// with a bundle-age block) and a bundle received from peer 1
	nev := 6
	if verif.Param("alphabet", 0) == 1 {
		nev = 9
	}
	submitted := 0
	for step := 0; step < depth; step++ {
		before := len(n.log)
		for i := range n.peers {
			n.peers[i].fail = verif.Bool(nm("fail"+nm("p", i)+"s", step))
		}
		n.lastEv = verif.Choose(nm("ev", step), nev)
		if shards := verif.Param("shards", 1); step == 0 && shards > 1 {
			// the check configuration splits the histories by their first event over several workers
			verif.Assume(n.lastEv%shards == verif.Param("shard", 0))
		}
		switch n.lastEv {
		case 0, 7, 8: // a bundle for a remote node (not a peer) is accepted: 0 submitted by an application, 7 the same
			// without a clock, 8 received from peer 1
			if n.lastEv == 8 && !n.up[0] {
				n.lastEv = -1
				break
			}
			if submitted < 2 {
				payload := []byte{byte('A' + submitted)}
				var b bpv7.Bundle
				switch n.lastEv {
				case 0:
					b = dataBundle("dtn://this/app", "dtn://far/inbox", 0)
				case 7:
					var err error
					b, err = bpv7.Builder().Source("dtn://this/app").Destination("dtn://far/inbox").CreationTimestampEpoch().
						Lifetime("1h").BundleAgeBlock(0).PayloadBlock(payload).Build()
					verif.Assume(err == nil)
				case 8:
					b = dataBundle("dtn://origin/app", "dtn://far/inbox", uint64(submitted), func(bl *bpv7.BundleBuilder) { bl.PreviousNodeBlock(n.peers[0].peer) })
				}
				b.CanonicalBlocks[len(b.CanonicalBlocks)-1].Value = bpv7.NewPayloadBlock(payload)
				if n.lastEv == 8 {
					inject(n.peers[0], b)
				} else {
					n.c.SendBundle(&b)
					settle()
				}
				a := &accepted{id: b.ID(), payload: payload, dest: b.PrimaryBlock.Destination}
				if n.lastEv == 8 {
					a.from = 1
				}
				n.acc = append(n.acc, a)
				submitted++
			}
		case 1, 2:
			if n.up[n.lastEv-1] {
				n.lastEv = -1 // already connected: nothing happens
			} else {
				n.peerAppears(n.lastEv - 1)
			}
		case 3:
			n.peerDisappears(verif.Choose(nm("which", step), 2))
		case 4: // pending-retry tick
			time.Sleep(10*time.Second + time.Millisecond)
		case 5: // orderly restart
			n.restart()
		case 6: // store-cleaning tick (every ten minutes; the bundles' lifetime is one hour)
			time.Sleep(10*time.Minute + time.Millisecond)
		}
		n.noteSends(before)
		n.checkRetention("after event")
		// epidemic: on a retry tick and whenever a peer appears, every connected peer that does not have a stored
		// bundle yet (no successful transmission to it) is offered the bundle
		if ev := n.lastEv; n.algo == "epidemic" && (ev == 4 || ev == 1 || ev == 2 || ev == 6) {
			for _, a := range n.acc {
				for i := range n.peers {
					if !n.up[i] || n.delivered(a, i, before) || a.from == i+1 {
						continue
					}
					offered := false
					for _, r := range n.log[before:] {
						if r.peer == n.peers[i].addr && r.b.ID().Scrub() == a.id.Scrub() {
							offered = true
						}
					}
					verif.Assert(offered, "epidemic: a retry offers a stored bundle to every connected peer that does not have it yet")
				}
			}
		}
	}
	// finally: every peer that is up and did not get a bundle successfully must have been offered it (epidemic)
	if n.algo == "epidemic" {
		for _, a := range n.acc {
			for i := range n.peers {
				if !n.up[i] || a.from == i+1 {
					continue
				}
				offered := false
				for _, r := range n.log {
					if r.peer == n.peers[i].addr && r.b.ID().Scrub() == a.id.Scrub() {
						offered = true
					}
				}
				verif.Assert(offered, "epidemic: a connected peer was offered every stored bundle")
			}
		}
	}
	verif.Reach("end")
}

// H05_SameMs: two application bundles created in the same millisecond are both retained.
func H05_SameMs() {
	n := newNode("epidemic")
	defer n.c.Close()
	for i := 0; i < 2; i++ {
		payload := []byte{byte('A' + i)}
		b := dataBundle("dtn://this/app", "dtn://far/inbox", 0)
		b.CanonicalBlocks[len(b.CanonicalBlocks)-1].Value = bpv7.NewPayloadBlock(payload)
		n.c.SendBundle(&b)
		settle()
		n.acc = append(n.acc, &accepted{id: b.ID(), payload: payload, dest: b.PrimaryBlock.Destination})
	}
	pend, _ := n.c.store.QueryPending()
	verif.Observe("pending", len(pend))
	for _, p := range pend {
		verif.Observe("key", p.Id)
	}
	verif.Assert(len(pend) == 2, "two bundles submitted in the same millisecond are both in the store")
	verif.Reach("end")
}
