//go:build verif

package routing

import (
	"github.com/dtn7/dtn7-go/pkg/bpv7"
	verif "github.com/dtn7/dtn7-go/pkg/zzverif"
)

// H05_Smoke: a real Core with epidemic routing, one connected peer: an application bundle for a remote node is
// transmitted to the peer; with a failing send it stays in the store, pending.
func H05_Smoke() {
	var log []sendRec
	c := testCore("epidemic", verif.TempDir("store"))
	p := newMockCLA("peer1", &log)
	p.fail = verif.Bool("fail")
	c.RegisterConvergable(p)
	settle()
	b := dataBundle("dtn://this/app", "dtn://far/inbox", 0)
	c.SendBundle(&b)
	settle()
	verif.Assert(len(log) == 1, "the bundle is handed to the connected peer once")
	pend, err := c.store.QueryPending()
	verif.Assert(err == nil, "pending query works")
	if p.fail {
		verif.Assert(len(pend) == 1, "after a failed send the bundle waits in the store, marked pending")
	}
	verif.Observe("pending", len(pend))
	_ = bpv7.DtnNone()
	verif.Reach("end")
}
