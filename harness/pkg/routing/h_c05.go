//go:build verif

package routing

import (
	"bytes"
	"time"

	"github.com/dtn7/dtn7-go/pkg/bpv7"
	"github.com/dtn7/dtn7-go/pkg/cla"
	verif "github.com/dtn7/dtn7-go/pkg/zzverif"
)

// accepted is the harness's own record of a bundle the node accepted for forwarding.
type accepted struct {
	id      bpv7.BundleID
	payload []byte
	dest    bpv7.EndpointID
	okSend  bool // a convergence layer reported a successful transmission
	from    int  // 1: received from peer 1 (which therefore has it), 0: submitted locally
	okDest   bool // transmitted successfully to the destination node (the node may release it)
	okBefore bool // okDest at the end of the previous event
	due      [2]bool // an event obliged epidemic routing to offer the bundle to peer i (peer connected, destination not)
}

// node is a real Core plus the scripted peers around it.
type node struct {
	c     *Core
	dir   string
	algo  string
	log   []sendRec
	peers [3]*mockCLA // peer1, peer2 and the bundles' destination node dtn://far/
	up    [3]bool
	epoch int // number of restarts so far
	maxBundles int // more than two bundles per history only after prefix 3
	restartAt []int // log positions at which the node restarted
	acc   []*accepted
	lastEv int
}

// delivered: a transmission of a to peer i succeeded before log position `before`.
// isCopyOf: the transmitted bundle r is a copy of the accepted bundle a. Identity is ID plus payload: after a restart
// the id keeper may reuse the sequence number of a bundle that has left the store, and the frozen clock of the model
// makes the creation times coincide.
func isCopyOf(r sendRec, a *accepted) bool {
	return r.b.ID().Scrub() == a.id.Scrub() && bytes.Equal(payloadBytes(r.b), a.payload)
}

func (n *node) delivered(a *accepted, i int, before int) bool {
	for _, r := range n.log[:before] {
		if r.ok && r.peer == n.peers[i].addr && isCopyOf(r, a) {
			return true
		}
	}
	return false
}

func newNode(algo string) *node {
	n := &node{algo: algo, dir: verif.TempDir("store")}
	n.c = testCore(algo, n.dir)
	n.peers[0] = newMockCLA("peer1", &n.log)
	n.peers[1] = newMockCLA("peer2", &n.log)
	n.peers[2] = newMockCLA("far", &n.log)
	return n
}

func (n *node) peerAppears(i int) {
	if n.up[i] {
		return
	}
	n.c.RegisterConvergable(n.peers[i])
	n.up[i] = true
	// a started convergence layer announces its peer
	n.peers[i].ch <- cla.NewConvergencePeerAppeared(n.peers[i], n.peers[i].peer)
	settle()
}

func (n *node) peerDisappears(i int) {
	if !n.up[i] {
		return
	}
	n.c.claManager.Unregister(n.peers[i])
	n.up[i] = false
	settle()
}

func (n *node) restart() {
	n.epoch++
	n.restartAt = append(n.restartAt, len(n.log))
	n.c.Close()
	n.c = testCore(n.algo, n.dir)
	for i := range n.peers {
		n.up[i] = false
		n.peers[i].ch = make(chan cla.ConvergenceStatus, 8)
	}
}

// noteSends updates the harness's record from the mock convergence layers' log.
func (n *node) noteSends(from int) {
	for _, r := range n.log[from:] {
		for _, a := range n.acc {
			if r.ok && isCopyOf(r, a) {
				a.okSend = true
				if r.peer == n.peers[2].addr {
					a.okDest = true
				}
			}
		}
	}
}

// checkRetention: every accepted bundle without a successful transmission is in the store, loads as itself, and is
// marked for retry.
func (n *node) checkRetention(when string) {
	pend, perr := n.c.store.QueryPending()
	verif.Assert(perr == nil, "pending query works")
	for _, a := range n.acc {
		if a.okSend {
			continue
		}
		bi, err := n.c.store.QueryId(a.id)
		verif.Assert(err == nil, "an accepted bundle without a successful transmission stays in the store")
		if err != nil {
			return
		}
		var b bpv7.Bundle
		var lerr error
		if bi.Fragmented {
			b, lerr = bi.Load()
		} else {
			b, lerr = bi.Parts[0].Load()
		}
		verif.Assert(lerr == nil, "the stored bundle loads")
		pl, _ := b.PayloadBlock()
		verif.Assert(pl != nil && bytes.Equal(pl.Value.(*bpv7.PayloadBlock).Data(), a.payload) && b.PrimaryBlock.Destination == a.dest, "the stored bundle is the accepted one")
		isPending := false
		for _, p := range pend {
			if p.Id == bi.Id {
				isPending = true
			}
		}
		verif.Assert(isPending, "an accepted bundle without a successful transmission is marked for retry")
	}
}

// H05_History: event histories over a real Core: an application submits a bundle (with or without a clock), peer 1
// delivers a bundle, a peer or the bundles' destination node appears / disappears, a send succeeds or fails (chosen per
// event), the pending-retry job fires, the store-cleaning job fires, the node restarts. Same-millisecond submissions
// occur (the clock only moves with the ticks). Checked after every event: retention and pending flag of every accepted
// bundle without a successful transmission, transmission to the destination node as soon as it is a connected peer, and
// under epidemic routing the offer to every connected peer that does not have the bundle.
func H05_History() { history(true, false, false) }

// H13_History: the same histories, judged by the per-peer log of transmissions: a bundle is never handed to the peer it
// was received from, and never again to a peer to which it was transmitted successfully before (for spray variants,
// whose memory is not stored: before since the last restart) - whatever failures, retries, disappearances and restarts
// happen in between. Failed direct deliveries to the destination node may be repeated.
func H13_History() { history(false, true, false) }

// H18_History: spray-and-wait with budget L = 2 under the same histories (without restarts, whose loss of the in-memory
// budget is not the subject, and without received bundles): a locally originated bundle is transmitted successfully to
// at most L-1 = 1 peer other than its destination, whatever the order of appearances, retries and failures; and the
// budget does not leak: while no such transmission has succeeded, every retry (and every appearance of a peer) offers
// the bundle to a connected peer again.
func H18_History() { history(false, false, true) }

func history(check05, check13, check18 bool) {
	algos := []string{"epidemic", "spray", "binary_spray", "dtlsr", "prophet", "sensor-mule"}
	n := newNode(algos[verif.Param("algo", 0)])
	defer func() { n.c.Close() }()
	depth := verif.Size("depth", 1, verif.Param("depth", 3))
	// alphabet 0: the six basic events; 1: also the store-cleaning tick, a clock-less submission (zero creation time
	// with a bundle-age block) and a bundle received from peer 1; 2: also the destination node appearing as a peer
	nev := 6
	switch verif.Param("alphabet", 0) {
	case 1:
		nev = 9
	case 2:
		nev = 10
	}
	npeers := 2
	if nev == 10 {
		npeers = 3
	}
	submitted := 0
	// prefix: events that happen before the explored part of the history (so that longer histories fit the depth)
	switch verif.Param("prefix", 0) {
	case 1: // peer 1 is connected and a bundle was submitted and transmitted to it
		n.peerAppears(0)
		n.submit(0, &submitted)
	case 2: // both peers are connected and a bundle was submitted and transmitted to them
		n.peerAppears(0)
		n.peerAppears(1)
		n.submit(0, &submitted)
	case 3: // two bundles of one source and creation time (same millisecond, or no clock) wait in the store
		kind := 0
		if verif.Bool("clockless") {
			kind = 7
		}
		n.submit(kind, &submitted)
		n.submit(kind, &submitted)
		n.maxBundles = 3
	}
	n.noteSends(0)
	for _, a := range n.acc {
		// the prefix's submissions happened with these peers connected
		a.due[0], a.due[1] = n.up[0], n.up[1]
	}
	for step := 0; step < depth; step++ {
		before := len(n.log)
		for i := 0; i < npeers; i++ {
			n.peers[i].fail = verif.Bool(nm("fail"+nm("p", i)+"s", step))
		}
		n.lastEv = verif.Choose(nm("ev", step), nev)
		if mask := verif.Param("events", 0); mask != 0 {
			// the check configuration restricts the event alphabet (bit i = event i allowed)
			verif.Assume(mask&(1<<uint(n.lastEv)) != 0)
		}
		if shards := verif.Param("shards", 1); step == 0 && shards > 1 {
			// the check configuration splits the histories by their first event over several workers
			verif.Assume(n.lastEv%shards == verif.Param("shard", 0))
		}
		switch n.lastEv {
		case 0, 7, 8: // a bundle for a remote node is accepted: 0 submitted by an application, 7 the same without a
			// clock, 8 received from peer 1
			if n.lastEv == 8 && !n.up[0] {
				n.lastEv = -1
				break
			}
			if !n.submit(n.lastEv, &submitted) {
				n.lastEv = -1 // the history's bundles are used up: nothing happens
			}
		case 1, 2:
			if n.up[n.lastEv-1] {
				n.lastEv = -1 // already connected: nothing happens
			} else {
				n.peerAppears(n.lastEv - 1)
			}
		case 3:
			n.peerDisappears(verif.Choose(nm("which", step), npeers))
		case 4: // pending-retry tick
			time.Sleep(10*time.Second + time.Millisecond)
		case 5: // orderly restart
			n.restart()
		case 6: // store-cleaning tick (every ten minutes; the bundles' lifetime is one hour)
			time.Sleep(10*time.Minute + time.Millisecond)
		case 9: // the destination node of the bundles appears as a peer
			if n.up[2] {
				n.lastEv = -1
			} else {
				n.peerAppears(2)
			}
		}
		n.noteSends(before)
		if verif.Param("trace", 0) == 1 {
			for _, r := range n.log[before:] {
				verif.Observe(nm("sends", step), r.peer, r.ok, r.b.PrimaryBlock.CreationTimestamp.SequenceNumber(), r.at.Unix())
			}
		}
		if check05 {
			n.checkRetention("after event")
			n.checkOffers(before)
		}
		if check13 {
			n.checkNoRepeat(before)
		}
		if check18 {
			n.checkBudget(before, 2)
		}
	}
	// finally: a bundle was offered to every peer that was connected at an event that makes epidemic routing dispatch
	// it (its acceptance, a peer appearing, a retry or cleaning tick) while the destination node itself was not
	// connected: Core.forward bypasses the routing algorithm while the destination is a peer (direct delivery), also
	// while the transmissions to it fail, and a peer that appeared during that time is offered the bundle only at the
	// next such event - the check does not demand replication before it
	if check05 && n.algo == "epidemic" {
		for _, a := range n.acc {
			for i := 0; i < 2; i++ {
				if !a.due[i] || a.from == i+1 {
					continue
				}
				offered := false
				for _, r := range n.log {
					if r.peer == n.peers[i].addr && isCopyOf(r, a) {
						offered = true
					}
				}
				verif.Assert(offered, "epidemic: a connected peer was offered every stored bundle")
			}
		}
	}
	verif.Reach("end")
}

// submit: a bundle for dtn://far/inbox is accepted: kind 0 submitted by an application, 7 the same without a clock
// (zero creation time and a bundle-age block), 8 received from peer 1. At most two bundles per history (three after prefix 3).
func (n *node) submit(kind int, submitted *int) bool {
	if *submitted >= 2 && *submitted >= n.maxBundles {
		return false
	}
	payload := []byte{byte('A' + *submitted)}
	var b bpv7.Bundle
	switch kind {
	case 0:
		b = dataBundle("dtn://this/app", "dtn://far/inbox", 0)
	case 7:
		var err error
		b, err = bpv7.Builder().Source("dtn://this/app").Destination("dtn://far/inbox").CreationTimestampEpoch().
			Lifetime("1h").BundleAgeBlock(0).PayloadBlock(payload).Build()
		verif.Assume(err == nil)
	case 8:
		b = dataBundle("dtn://origin/app", "dtn://far/inbox", uint64(*submitted), func(bl *bpv7.BundleBuilder) { bl.PreviousNodeBlock(n.peers[0].peer) })
	}
	b.CanonicalBlocks[len(b.CanonicalBlocks)-1].Value = bpv7.NewPayloadBlock(payload)
	if kind == 8 {
		inject(n.peers[0], b)
	} else {
		n.c.SendBundle(&b)
		settle()
	}
	a := &accepted{id: b.ID(), payload: payload, dest: b.PrimaryBlock.Destination}
	if kind == 8 {
		a.from = 1
	}
	n.acc = append(n.acc, a)
	*submitted++
	return true
}

// checkOffers: what had to be transmitted during the last event.
func (n *node) checkOffers(before int) {
	ev := n.lastEv
	sentTo := func(a *accepted, i int) bool {
		for _, r := range n.log[before:] {
			if r.peer == n.peers[i].addr && isCopyOf(r, a) {
				return true
			}
		}
		return false
	}
	for _, a := range n.acc {
		if a.okBefore {
			continue // released before this event
		}
		// the destination node is a connected peer: the bundle is transmitted to it when it appears, when the bundle is
		// accepted, and on every retry
		if n.up[2] && (ev == 9 || ev == 4 || ev == 6 || ((ev == 0 || ev == 7 || ev == 8) && a == n.acc[len(n.acc)-1])) {
			verif.Assert(sentTo(a, 2), "a bundle is transmitted to its destination node as soon as that node is a connected peer")
		}
		// epidemic: on a retry tick and whenever a peer appears, every connected peer that does not have a stored
		// bundle yet (no successful transmission to it) is offered the bundle - unless the destination itself is
		// connected (direct delivery bypasses the algorithm)
		if n.algo == "epidemic" && !n.up[2] && (ev == 4 || ev == 1 || ev == 2 || ev == 6 || ((ev == 0 || ev == 7 || ev == 8) && a == n.acc[len(n.acc)-1])) {
			for i := 0; i < 2; i++ {
				if n.up[i] {
					a.due[i] = true
				}
			}
		}
		if (n.algo == "epidemic" || n.algo == "sensor-mule") && !n.up[2] && (ev == 4 || ev == 1 || ev == 2 || ev == 6) {
			for i := 0; i < 2; i++ {
				if !n.up[i] || n.delivered(a, i, before) || a.from == i+1 {
					continue
				}
				if n.algo == "sensor-mule" && i == 0 {
					// peer 1 is a sensor: a mule hands it only bundles addressed to it
					verif.Assert(!sentTo(a, 0), "a data mule does not hand a sensor a bundle that is not addressed to it")
					continue
				}
				verif.Assert(sentTo(a, i), "epidemic: a retry offers a stored bundle to every connected peer that does not have it yet")
			}
		}
	}
	for _, a := range n.acc {
		a.okBefore = a.okDest
	}
}

// checkNoRepeat: C13 on the transmissions of the last event.
func (n *node) checkNoRepeat(before int) {
	ram := n.algo == "spray" || n.algo == "binary_spray"
	for i := before; i < len(n.log); i++ {
		r := n.log[i]
		for _, a := range n.acc {
			if !isCopyOf(r, a) {
				continue
			}
			if a.from == 1 {
				verif.Assert(r.peer != n.peers[0].addr, "a bundle is never sent back to the peer it came from")
			}
			since := 0
			if ram && len(n.restartAt) > 0 {
				since = n.restartAt[len(n.restartAt)-1]
			}
			for j := since; j < i; j++ {
				q := n.log[j]
				if q.ok && q.peer == r.peer && isCopyOf(q, a) {
					verif.Assert(false, "a bundle is never transmitted again to a peer that already received it successfully")
				}
			}
		}
	}
}

// H05_SameMs: two application bundles created in the same millisecond are both retained.
func H05_SameMs() {
	n := newNode("epidemic")
	defer n.c.Close()
	for i := 0; i < 2; i++ {
		payload := []byte{byte('A' + i)}
		b := dataBundle("dtn://this/app", "dtn://far/inbox", 0)
		b.CanonicalBlocks[len(b.CanonicalBlocks)-1].Value = bpv7.NewPayloadBlock(payload)
		n.c.SendBundle(&b)
		settle()
		n.acc = append(n.acc, &accepted{id: b.ID(), payload: payload, dest: b.PrimaryBlock.Destination})
	}
	pend, _ := n.c.store.QueryPending()
	verif.Observe("pending", len(pend))
	for _, p := range pend {
		verif.Observe("key", p.Id)
	}
	verif.Assert(len(pend) == 2, "two bundles submitted in the same millisecond are both in the store")
	verif.Reach("end")
}

// H05_ConcurrentFailures: "when several transmissions of one bundle fail at the same moment": on a real Core (epidemic,
// prophet, dtlsr-broadcast) with two connected peers a bundle is submitted and both transmissions fail; Core.forward
// reports each failure from its own goroutine, and the scheduler switches goroutines at every store call, so the two
// read-modify-write sequences on the bundle's store item interleave. Afterwards the bundle is still stored and pending,
// and on the next retry it is offered to both peers again (a lost update would leave one of them marked as served).
func H05_ConcurrentFailures() {
	algos := []string{"epidemic", "prophet"}
	n := newNode(algos[verif.Choose("algo", len(algos))])
	defer func() { n.c.Close() }()
	n.peerAppears(0)
	n.peerAppears(1)
	if p, ok := n.c.routing.(*Prophet); ok {
		far := bpv7.MustNewEndpointID("dtn://far/inbox")
		for i := 0; i < 2; i++ {
			p.peerPredictabilities[n.peers[i].peer] = map[bpv7.EndpointID]float64{far: 0.5}
		}
	}
	n.peers[0].fail, n.peers[1].fail = true, true
	submitted := 0
	n.submit(0, &submitted)
	n.noteSends(0)
	a := n.acc[0]
	first := len(n.log)
	attempts := 0
	for _, r := range n.log {
		if r.b.ID().Scrub() == a.id.Scrub() {
			attempts++
			verif.Assert(!r.ok, "the transmissions fail")
		}
	}
	verif.Assert(attempts == 2, "both transmissions were attempted")
	n.checkRetention("after two failures at the same moment")
	time.Sleep(10*time.Second + time.Millisecond) // pending-retry tick
	for i := 0; i < 2; i++ {
		offered := false
		for _, r := range n.log[first:] {
			if r.peer == n.peers[i].addr && r.b.ID().Scrub() == a.id.Scrub() {
				offered = true
			}
		}
		verif.Assert(offered, "after two transmissions failed at the same moment the bundle is offered to both peers again")
	}
	verif.Reach("end")
}

// checkBudget: C18 on the transmissions so far (spray-and-wait, budget L).
func (n *node) checkBudget(before int, L int) {
	for _, a := range n.acc {
		if a.from != 0 || a.okDest {
			continue
		}
		served := map[string]bool{}
		for _, r := range n.log {
			if r.ok && isCopyOf(r, a) && r.peer != n.peers[2].addr {
				served[r.peer] = true
			}
		}
		verif.Assert(len(served) <= L-1, "a spray-and-wait bundle is transmitted successfully to at most L-1 peers other than its destination")
		// no leak: with copies left (nobody served yet) a retry or a newly appeared peer leads to an offer
		ev := n.lastEv
		if len(served) == 0 && !n.up[2] && (ev == 4 || ev == 6 || ev == 1 || ev == 2) && (n.up[0] || n.up[1]) {
			servedBefore := false
			for _, r := range n.log[:before] {
				if r.ok && isCopyOf(r, a) {
					servedBefore = true
				}
			}
			offered := false
			for _, r := range n.log[before:] {
				if isCopyOf(r, a) {
					offered = true
				}
			}
			verif.Assert(offered || servedBefore, "the budget does not leak: while no copy was handed over successfully, a retry offers the bundle again")
		}
	}
}
