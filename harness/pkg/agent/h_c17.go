//go:build verif

package agent

import (
	"bytes"

	"github.com/dtn7/dtn7-go/pkg/bpv7"
	verif "github.com/dtn7/dtn7-go/pkg/zzverif"
)

// H17_Wam: the five WebSocket-agent message types: value -> marshalCbor -> garbage appended -> unmarshalCbor from
// the same stream -> equal value, stream holds exactly the garbage.
func H17_Wam() {
	var m webAgentMessage
	kind := verif.Choose("kind", 5)
	n := verif.Size("n", 0, 3)
	txt := verif.ASCII("txt", n)
	switch kind {
	case 0:
		m = &wamStatus{txt}
	case 1:
		m = newRegisterMessage(txt)
	case 2:
		age := verif.U64("age")
		verif.Assume(age < 1000)
		b, err := bpv7.Builder().Source("dtn://src/").Destination("dtn://dst/").CreationTimestampEpoch().Lifetime("1h").
			BundleAgeBlock(age).PayloadBlock(verif.Bytes("pl", 2)).Build()
		if err != nil {
			verif.Assert(false, "bundle builds")
			return
		}
		m = newBundleMessage(b)
	case 3:
		m = newSyscallRequestMessage(txt)
	case 4:
		m = newSyscallResponseMessage(txt, verif.Bytes("resp", verif.Size("rn", 0, 2)))
	}
	var w bytes.Buffer
	verif.Assert(marshalCbor(m, &w) == nil, "message serialises")
	garbage := verif.Bytes("garbage", 2)
	w.Write(garbage)
	back, err := unmarshalCbor(&w)
	verif.Assert(err == nil, "own encoding accepted")
	verif.Assert(back.typeCode() == m.typeCode(), "same message type")
	switch x := m.(type) {
	case *wamStatus:
		verif.Assert(back.(*wamStatus).errorMsg == x.errorMsg, "status text equal")
	case *wamRegister:
		verif.Assert(back.(*wamRegister).endpoint == x.endpoint, "endpoint text equal")
	case *wamBundle:
		var w1, w2 bytes.Buffer
		_ = x.b.WriteBundle(&w1)
		_ = back.(*wamBundle).b.WriteBundle(&w2)
		verif.Assert(bytes.Equal(w1.Bytes(), w2.Bytes()), "bundle equal")
	case *wamSyscallRequest:
		verif.Assert(back.(*wamSyscallRequest).request == x.request, "request equal")
	case *wamSyscallResponse:
		y := back.(*wamSyscallResponse)
		verif.Assert(y.request == x.request && bytes.Equal(y.response, x.response), "response equal")
	}
	verif.Assert(bytes.Equal(w.Bytes(), garbage), "decoder consumes exactly the encoding")
	verif.Reach("end")
}
