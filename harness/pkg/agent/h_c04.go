//go:build verif

package agent

import (
	"bytes"

	verif "github.com/dtn7/dtn7-go/pkg/zzverif"
)

// H04_Wam: N fully symbolic bytes into the WebSocket-agent message decoder (all five message types).
func H04_Wam() {
	n := verif.Param("n", 7)
	in := verif.Bytes("in", n)
	verif.InputLen(n)
	verif.Observe("in", in)
	_, _ = unmarshalCbor(bytes.NewReader(in))
	verif.Reach("end")
}
