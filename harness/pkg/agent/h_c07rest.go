//go:build verif

package agent

import (
	"bytes"
	"encoding/json"
	"io"
	"net/http"
	"time"

	"github.com/dtn7/dtn7-go/pkg/bpv7"
	verif "github.com/dtn7/dtn7-go/pkg/zzverif"
)

// fetchWriter is the http.ResponseWriter of the harness. Under the interpreter the JSON encoder model hands the
// response value (a deep copy taken at the moment of encoding) to GosymEncoded; natively the real encoder writes JSON
// text, from which the sequence numbers of the returned bundles are read back.
type fetchWriter struct {
	hdr  http.Header
	body bytes.Buffer
	resp *RestFetchResponse
}

func (w *fetchWriter) Header() http.Header         { return w.hdr }
func (w *fetchWriter) Write(p []byte) (int, error) { return w.body.Write(p) }
func (w *fetchWriter) WriteHeader(int)             {}
func (w *fetchWriter) GosymEncoded(v interface{}) {
	if r, ok := v.(RestFetchResponse); ok {
		w.resp = &r
	}
}

// seqs: the creation-timestamp sequence numbers of the bundles in the response (they identify the test bundles).
func (w *fetchWriter) seqs() (out []uint64) {
	if w.resp != nil {
		for _, b := range w.resp.Bundles {
			out = append(out, b.PrimaryBlock.CreationTimestamp.SequenceNumber())
		}
		return
	}
	var r struct {
		Bundles []struct {
			PrimaryBlock struct {
				CreationTimestamp struct {
					Seq uint64 `json:"sequenceNo"`
				} `json:"creationTimestamp"`
			} `json:"primaryBlock"`
		} `json:"bundles"`
	}
	if err := json.Unmarshal(w.body.Bytes(), &r); err != nil {
		verif.Assert(false, "the fetch response is JSON")
	}
	for _, b := range r.Bundles {
		out = append(out, b.PrimaryBlock.CreationTimestamp.Seq)
	}
	return
}

func restBundle(seq uint64) bpv7.Bundle {
	b, err := bpv7.Builder().Source("dtn://src/").Destination(universe[0]).CreationTimestampEpoch().Lifetime("1h").
		BundleAgeBlock(uint64(0)).PayloadBlock([]byte{byte(seq)}).Build()
	if err != nil {
		verif.Assert(false, "bundle builds")
	}
	b.PrimaryBlock.CreationTimestamp = bpv7.NewCreationTimestamp(bpv7.DtnTimeEpoch, seq)
	return b
}

func (ra *RestAgent) fetchOnce(uuid string) []uint64 {
	w := &fetchWriter{hdr: http.Header{}}
	req := &http.Request{Body: io.NopCloser(bytes.NewReader([]byte(`{"uuid":"` + uuid + `"}`)))}
	ra.handleFetch(w, req)
	return w.seqs()
}

// H07_RestFetch: "a REST client's fetches together return every bundle put into its mailbox exactly once", also while a
// fetch and a delivery overlap, "in both orders": a client registered for the destination holds 0..2 bundles; then
// either a fetch is running and a further bundle is delivered at one of its schedule points (between reading and
// clearing the mailbox, after clearing it, before the response is encoded), or a delivery is running and the fetch happens
// at its schedule point (between reading and writing the mailbox), or the two happen one after the other. The schedule
// points are the build-tag-guarded hooks in rest_agent.go; the overlapping operation runs in its own goroutine and the
// hooked one waits a millisecond for it (so code that serialises the two simply finishes the first one first). A final
// fetch collects the rest. Every bundle shows up in exactly one of the responses, once.
func H07_RestFetch() {
	ra := &RestAgent{receiver: make(chan Message), sender: make(chan Message)}
	const uuid = "client-0"
	ra.clients.Store(uuid, eidOf(0))
	n := verif.Size("held", 0, 2)
	for i := 0; i < n; i++ {
		ra.receiveBundleMessage(BundleMessage{Bundle: restBundle(uint64(1 + i))})
	}
	var first []uint64
	points := []string{"", "rest/fetch-loaded", "rest/fetch-cleared", "rest/fetch-respond", "rest/deliver-loaded"}
	point := points[verif.Choose("overlap", len(points))]
	done := make(chan struct{}, 1)
	fired := false
	fetcher := func() { first = ra.fetchOnce(uuid) }
	deliverer := func() { ra.receiveBundleMessage(BundleMessage{Bundle: restBundle(uint64(1 + n))}) }
	other := deliverer
	if point == "rest/deliver-loaded" {
		other = fetcher
	}
	VerifSchedHook = func(label string) {
		if label != point || fired {
			return
		}
		fired = true
		go func() { other(); done <- struct{}{} }()
		time.Sleep(time.Millisecond) // let the other operation run as far as it can
	}
	defer func() { VerifSchedHook = nil }()
	switch point {
	case "":
		fetcher()
		deliverer()
	case "rest/deliver-loaded":
		deliverer()
	default:
		fetcher()
	}
	if fired {
		<-done
	} else if point != "" {
		// the schedule point was not passed (a fetch on an empty mailbox): run the other operation afterwards
		other()
	}
	VerifSchedHook = nil
	second := ra.fetchOnce(uuid)
	count := map[uint64]int{}
	for _, s := range first {
		count[s]++
	}
	for _, s := range second {
		count[s]++
	}
	for i := 1; i <= n+1; i++ {
		verif.Assert(count[uint64(i)] == 1, "a client's fetches together return every bundle put into its mailbox exactly once (also when a delivery overlaps a fetch)")
	}
	verif.Assert(len(first)+len(second) == n+1, "nothing but the delivered bundles is returned")
	third := ra.fetchOnce(uuid)
	verif.Assert(len(third) == 0, "a fetched bundle is not returned again")
	verif.Reach("end")
}
