//go:build verif

package agent

import (
	"bytes"
	"time"

	"github.com/dtn7/dtn7-go/pkg/bpv7"
	verif "github.com/dtn7/dtn7-go/pkg/zzverif"
)

var universe = []string{"dtn://node/a", "dtn://node/b", "ipn:7.1"}

func eidOf(i int) bpv7.EndpointID { return bpv7.MustNewEndpointID(universe[i]) }

func nm(s string, i int) string { return s + string(rune('0'+i)) }

func bundleTo(dst int) bpv7.Bundle {
	b, err := bpv7.Builder().Source("dtn://src/").Destination(universe[dst]).CreationTimestampEpoch().Lifetime("1h").
		BundleAgeBlock(uint64(0)).PayloadBlock(verif.Bytes("pl", 2)).Build()
	if err != nil {
		verif.Assert(false, "bundle builds")
	}
	return b
}

func sameBundle(a, b bpv7.Bundle) bool {
	var w1, w2 bytes.Buffer
	_ = a.WriteBundle(&w1)
	_ = b.WriteBundle(&w2)
	return bytes.Equal(w1.Bytes(), w2.Bytes())
}

// H07_RestFanout: 0..3 REST clients registered for endpoints from a three-element universe, in every registration
// order; one arriving bundle: afterwards the mailbox of a client holds the bundle exactly once iff the client's
// endpoint is the bundle's destination; the agent reports every registered endpoint.
func H07_RestFanout() {
	ra := &RestAgent{receiver: make(chan Message), sender: make(chan Message)}
	k := verif.Size("clients", 0, 3)
	eps := make([]int, k)
	for i := 0; i < k; i++ {
		eps[i] = verif.Choose(nm("ep", i), 3)
		ra.clients.Store(nm("uuid-", i), eidOf(eps[i]))
	}
	dst := verif.Choose("dst", 3)
	b := bundleTo(dst)
	ra.receiveBundleMessage(BundleMessage{Bundle: b})
	for i := 0; i < k; i++ {
		val, ok := ra.mailbox.Load(nm("uuid-", i))
		if eps[i] == dst {
			verif.Assert(ok, "a client registered for the destination gets the bundle")
			bs := val.([]bpv7.Bundle)
			verif.Assert(len(bs) == 1, "exactly once per accepted copy")
			verif.Assert(sameBundle(bs[0], b), "with unchanged content")
		} else {
			verif.Assert(!ok || len(val.([]bpv7.Bundle)) == 0, "a client registered for another endpoint does not get the bundle")
		}
	}
	// second copy of the same bundle: appended, again once
	ra.receiveBundleMessage(BundleMessage{Bundle: b})
	for i := 0; i < k; i++ {
		if eps[i] == dst {
			val, _ := ra.mailbox.Load(nm("uuid-", i))
			verif.Assert(len(val.([]bpv7.Bundle)) == 2, "a second accepted copy is delivered once more")
		}
	}
	got := ra.Endpoints()
	for i := 0; i < k; i++ {
		verif.Assert(bagHasEndpoint(got, eidOf(eps[i])), "every registered endpoint is reported by the agent")
	}
	for _, e := range got {
		found := false
		for i := 0; i < k; i++ {
			found = found || e == eidOf(eps[i])
		}
		verif.Assert(found, "only registered endpoints are reported")
	}
	verif.Reach("end")
}

// mockChild is an application agent with a fixed endpoint set and a buffered mailbox.
type mockChild struct {
	eps []bpv7.EndpointID
	rx  chan Message
	tx  chan Message
}

func (m *mockChild) Endpoints() []bpv7.EndpointID { return m.eps }
func (m *mockChild) MessageReceiver() chan Message { return m.rx }
func (m *mockChild) MessageSender() chan Message   { return m.tx }

// H07_Mux: the real MuxAgent (handler goroutines) with 0..3 children owning 1..2 endpoints each: a bundle message is
// handed to every child that owns the destination, once, and to no other; ownership queries are set membership.
func H07_Mux() {
	mux := NewMuxAgent()
	k := verif.Size("children", 0, 3)
	kids := make([]*mockChild, k)
	owns := make([][3]bool, k)
	for i := 0; i < k; i++ {
		c := &mockChild{rx: make(chan Message, 4), tx: make(chan Message)}
		e0 := verif.Choose(nm("e0_", i), 3)
		c.eps = append(c.eps, eidOf(e0))
		owns[i][e0] = true
		if verif.Bool(nm("two", i)) {
			e1 := verif.Choose(nm("e1_", i), 3)
			c.eps = append(c.eps, eidOf(e1))
			owns[i][e1] = true
		}
		kids[i] = c
		mux.Register(c)
	}
	dst := verif.Choose("dst", 3)
	b := bundleTo(dst)
	anyOwner := false
	for i := 0; i < k; i++ {
		anyOwner = anyOwner || owns[i][dst]
	}
	verif.Assert(AppAgentHasEndpoint(mux, eidOf(dst)) == anyOwner, "the multiplexer owns an endpoint exactly when a child does")
	mux.MessageReceiver() <- BundleMessage{Bundle: b}
	time.Sleep(time.Millisecond) // let the handler goroutine run
	for i, c := range kids {
		if owns[i][dst] {
			verif.Assert(len(c.rx) == 1, "a child that owns the destination gets the message exactly once")
			m := <-c.rx
			bm, ok := m.(BundleMessage)
			verif.Assert(ok && sameBundle(bm.Bundle, b), "with unchanged content")
		} else {
			verif.Assert(len(c.rx) == 0, "a child that does not own the destination gets nothing")
		}
	}
	verif.Reach("end")
}

// H07_MuxUnregister: "also while clients register, unregister ... concurrently with arriving bundles": three or four
// children own the destination; the first child's mailbox is unbuffered, so the multiplexer's fan-out pauses there;
// meanwhile another child (any of the others) shuts down and is unregistered, or a new child registers; then the fan-out
// continues. Every child that stays registered receives the bundle exactly once with unchanged content, the leaving
// child at most once, and nothing panics (no send on the closed mailbox of the child that left).
func H07_MuxUnregister() {
	mux := NewMuxAgent()
	k := verif.Size("children", 3, 4)
	kids := make([]*mockChild, k)
	for i := 0; i < k; i++ {
		depth := 4
		if i == 0 {
			depth = 0 // the fan-out blocks at the first child until the harness takes the message
		}
		kids[i] = &mockChild{eps: []bpv7.EndpointID{eidOf(0)}, rx: make(chan Message, depth), tx: make(chan Message)}
		mux.Register(kids[i])
	}
	b := bundleTo(0)
	mux.MessageReceiver() <- BundleMessage{Bundle: b}
	time.Sleep(time.Millisecond) // the handler is now blocked handing the message to child 0
	leaver := -1
	var joiner *mockChild
	switch verif.Choose("change", 3) {
	case 0: // nothing changes
	case 1: // another child leaves
		leaver = verif.Size("leaver", 1, k-1)
		go func() { kids[leaver].tx <- ShutdownMessage{} }()
	case 2: // a new child registers
		joiner = &mockChild{eps: []bpv7.EndpointID{eidOf(0)}, rx: make(chan Message, 4), tx: make(chan Message)}
		go mux.Register(joiner)
	}
	time.Sleep(time.Millisecond)
	first := <-kids[0].rx // the fan-out continues
	bm, ok := first.(BundleMessage)
	verif.Assert(ok && sameBundle(bm.Bundle, b), "the first child gets the bundle with unchanged content")
	time.Sleep(time.Millisecond)
	for i := 1; i < k; i++ {
		n := 0
		for len(kids[i].rx) > 0 {
			m, open := <-kids[i].rx
			if !open {
				break
			}
			if bm, isB := m.(BundleMessage); isB {
				verif.Assert(sameBundle(bm.Bundle, b), "unchanged content")
				n++
			}
		}
		if i == leaver {
			verif.Assert(n <= 1, "a child that leaves during the fan-out gets the bundle at most once")
		} else {
			verif.Assert(n == 1, "every child that stays registered gets the bundle exactly once, also while another one unregisters or registers")
		}
	}
	if joiner != nil {
		verif.Assert(len(joiner.rx) <= 1, "a child that registers during the fan-out gets the bundle at most once")
	}
	verif.Reach("end")
}
