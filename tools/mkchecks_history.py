#!/usr/bin/env python3
"""Writes the H05_History / H13_History entries of checks/C05.json and checks/C13.json (one entry per algorithm and shard)."""
import json
names=["epidemic","spray","binary_spray","dtlsr","prophet","sensor-mule"]
PKG="github.com/dtn7/dtn7-go/pkg/routing"
def H(name,a,d,alpha,sh,shs,tier,prefix=0,events=0):
    env={"algo":str(a),"depth":str(d),"alphabet":str(alpha),"shards":str(shs),"shard":str(sh)}
    if events: env["events"]=str(events)
    note="routing algorithm %s, histories of depth <= %d over %d events, first event = %d mod %d"%(names[a],d,{0:6,1:9,2:10}[alpha],sh,shs)
    if events:
        note+=", events restricted to {%s}"%",".join(str(i) for i in range(10) if events>>i&1)
    if prefix:
        env["prefix"]=str(prefix); note+=", after prefix %d (%s)"%(prefix,{1:"peer 1 connected, one bundle submitted and transmitted",2:"both peers connected, one bundle submitted and transmitted",3:"two bundles of one source and creation time waiting in the store"}[prefix])
    h={"name":name,"pkg":PKG,"crc":"uf","expect_reach":["end"],"env":env,"budget":400000000,"note":note}
    if tier!="both": h["tiers"]=[tier]
    return h
c=json.load(open('/verif/checks/C05.json'))
hs=[]
# both tiers: depth 3 over all ten events for every algorithm; thorough adds depth 4 for epidemic and (without the
# destination peer) for the other algorithms - a full depth-4 sweep of all six algorithms took more than 90 minutes
for a in range(5):
    for sh in range(3): hs.append(H("H05_History",a,3,2,sh,3,"both"))
hs.append(H("H05_History",0,2,1,0,1,"both",prefix=3))
for sh in range(2): hs.append(H("H05_History",5,3,1,sh,2,"both"))
for sh in range(10): hs.append(H("H05_History",0,4,2,sh,10,"thorough"))
for a in (1,2,3,4):
    for sh in range(3): hs.append(H("H05_History",a,4,1,sh,3,"thorough",events=sum(1<<i for i in (0,1,2,3,4,5,7,8))))
for sh in range(4): hs.append(H("H05_History",0,3,1,sh,4,"thorough",prefix=3))
hs.append({"name":"H05_SameMs","pkg":PKG,"crc":"uf","expect_reach":["end"]})
hs.append({"name":"H05_ConcurrentFailures","pkg":PKG,"crc":"real","expect_reach":["end"],"yield_on_store":True,"note":"two failure reports for one bundle interleaved at every store call"})
c['harnesses']=hs
json.dump(c,open('/verif/checks/C05.json','w'),indent=1)
c=json.load(open('/verif/checks/C13.json'))
hs=[h for h in c['harnesses'] if h['name']!='H13_History']
EV13=830
for a in range(5):
    for sh in range(3): hs.append(H("H13_History",a,3,2,sh,3,"both",prefix=2,events=EV13))
for a in range(5):
    for sh in range(5): hs.append(H("H13_History",a,4,2,sh,5,"thorough",prefix=2,events=EV13))
for sh in range(3): hs.append(H("H13_History",5,3,2,sh,3,"thorough",prefix=2,events=EV13))
c['harnesses']=hs
json.dump(c,open('/verif/checks/C13.json','w'),indent=1)

# C18: spray-and-wait (algo 1) with budget 2, events without restart (5) and received bundles (8)
c=json.load(open('/verif/checks/C18.json'))
hs=[h for h in c['harnesses'] if h['name']!='H18_History']
EV18=sum(1<<i for i in (0,1,2,3,4,6,7,9))
for sh in range(3):
    h=H("H18_History",1,3,2,sh,3,"both",events=EV18); h['env']['mult']="2"; hs.append(h)
for sh in range(5): # 5 shards: every residue class of the first event contains an allowed event
    h=H("H18_History",1,4,2,sh,5,"thorough",events=EV18); h['env']['mult']="2"; hs.append(h)
c['harnesses']=hs
json.dump(c,open('/verif/checks/C18.json','w'),indent=1)
