#!/bin/bash
# usage: run_seeded.sh <seeded dir> <property> [extra gosym args]: applies the patch to /repo, runs the check, undoes the patch
d=$(realpath $1); p=$2; shift 2
git -C /repo apply $d/patch.diff || exit 3
/verif/bin/gosym check --property $p "$@" 2>&1 | grep -a -v '^  harness' | cut -c1-220 | tail -6
git -C /repo checkout -- .
git -C /repo status --short | head -3
