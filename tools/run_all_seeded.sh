#!/bin/bash
# Runs every seeded change under /verif/seeded against the quick check of its property; prints one line per seed.
# usage: run_all_seeded.sh [tier]    (applies each patch to /repo, runs the check, undoes the patch)
tier=${1:-quick}
cd /verif
for d in seeded/*/; do
  d=${d%/}; p=$(python3 -c "import json;print(json.load(open('$d/meta.json'))['property'])")
  s=$(date +%s)
  git -C /repo apply $(realpath $d/patch.diff) || { echo "$d: patch does not apply"; continue; }
  out=$(/verif/bin/gosym check --property $p --tier $tier 2>&1); rc=$?
  git -C /repo checkout -- .
  echo "$d property=$p exit=$rc $(( $(date +%s)-s ))s $(echo "$out" | grep -c '^VIOLATION') violations; $(echo "$out" | grep -a '^  harness=' | sed 's/ kind=.*//' | sort -u | tr '\n' ' ')"
done
git -C /repo status --short | head -3
