#!/bin/bash
# For `vp run --with-repo -- tools/run_tier_snapshot.sh thorough [C01 C02 ...]`: builds the engine of this snapshot and
# runs the given tier of the given (default: all) properties against the snapshot of /repo. Exploration only - evidence
# that is registered always comes from /verif against /repo itself.
tier=${1:-thorough}; shift
props=${@:-C01 C02 C03 C04 C05 C06 C07 C08 C09 C10 C11 C12 C13 C14 C15 C16 C17 C18 C19 C20}
export GOSYM_VERIF=$PWD GOSYM_REPO=${VP_RUN_REPO:-/repo}
(cd engine && GOFLAGS=-mod=mod GOPROXY=off GOSUMDB=off GOTOOLCHAIN=local go build -o ../bin/gosym .) || exit 2
for p in $props; do
  s=$(date +%s)
  ./bin/gosym check --property $p --tier $tier > out_$p.log 2>&1; rc=$?
  echo "$p rc=$rc $(( $(date +%s)-s ))s $(tail -1 out_$p.log | cut -c1-230)"
  grep -a -E "^(VIOLATION|MACHINERY|ENGINE-MISMATCH)" out_$p.log | cut -c1-300 | head -8
done
