#!/bin/bash
# usage: verify_seed.sh <worktree with _seed/> : confirms that a seeded change compiles, passes the repository's own
# tests, and that its demonstration fails with the change and passes without it. Prints a summary line.
export GOFLAGS=-mod=mod GOPROXY=off GOSUMDB=off GOTOOLCHAIN=local
wt=$1; cd $wt || exit 9
pkgdir=$(cat _seed/demo_path.txt | tr -d '\n ')
git checkout -q -- . ; git clean -fdq -e _seed
git apply _seed/patch.diff || { echo "RESULT $wt patch-does-not-apply"; exit 1; }
go build ./... || { echo "RESULT $wt build-fails"; exit 1; }
go test -vet=off -count=1 -timeout 25m ./... > _seed/suite.log 2>&1
suite=$(grep -E "^(FAIL|---\s*FAIL)" _seed/suite.log | grep -v TestWebAgentConnector | tr '\n' ';')
cp _seed/zz_demo_test.go $pkgdir/zz_demo_test.go
go test -vet=off -count=1 -run 'TestZZDemo' ./$pkgdir/ > _seed/demo_with.log 2>&1; with=$?
git apply -R _seed/patch.diff
go test -vet=off -count=1 -run 'TestZZDemo' ./$pkgdir/ > _seed/demo_without.log 2>&1; without=$?
rm -f $pkgdir/zz_demo_test.go
echo "RESULT $wt suite_failures=[$suite] demo_with_change_rc=$with demo_without_change_rc=$without"
