#!/usr/bin/env python3
"""Regenerates /verif/MANIFEST.json from the per-property table below and /verif/checks/*.json."""
import json, os, glob, subprocess

V = "/verif"
props = [json.loads(l)["id"] for l in open(f"{V}/properties.jsonl")]
claimed = sorted(os.path.basename(f)[:-5] for f in glob.glob(f"{V}/checks/C*.json"))

TECH = "bounded symbolic execution of the go/ssa form of the real code + SMT (z3 5.1.0; cvc5 1.0.3 bv-as-int and z3 4.8.12 as fall-backs); counterexamples and sampled paths replayed natively"

META = {
 "C01": ("Bounded symbolic model checking of the real codec: for every value in the bound, marshal->unmarshal->marshal of primary blocks (all 2^64 values of one field at a time, all flag bits, all CRC types, all endpoint forms), of canonical blocks of every registered type and of unknown types, and of whole bundles is lossless and byte-stable; every accepted 1-byte (thorough: 2-byte) mutation of two CRC-less template encodings re-serialises stably. Decided per path by unsat answers; not a proof beyond the bounds.",
         "Bounds: payload <= 3 symbolic bytes, <= 1 (thorough: 2) extension blocks, map-valued blocks with <= 1 entry, node names <= 2 and demux <= 1 symbolic ASCII bytes, one wide 64-bit field at a time (others < 24), mutation windows of 1-2 bytes over two templates. CRC as uninterpreted function (round-trip equalities are congruences). Outside: larger payloads, >2 extension blocks, products of width classes, dtn-tool binary level.", "DESIGN.md 5/C01"),
 "C02": ("Bounded symbolic model checking that 'accepted => well-formed' against a rule oracle written from the property text: raw (unsorted, unvalidated) bundle literals through the real serialiser and parser, with fully symbolic control flags, arbitrary block orders/numbers/types, symbolic age and hop values; 1-byte mutations of template encodings; and bounded builder programs (<= 3 calls after source/destination).",
         "Bounds as listed per harness in evidence; creation time / lifetime from representative concrete values around the host clock (expiry instant itself is C06); endpoints nested in routing blocks are not part of the oracle. Outside: longer builder programs, BuildFromMap, REST layer.", "DESIGN.md 5/C02"),
 "C03": ("Solver-checked kernel lemmas on the real table-driven CRC code (one table step == eight bitwise steps of CRC-16/X-25 resp. CRC-32C for every state and byte; composition; check values), framing (accepted iff transmitted value == CRC of the received bytes with zeroed field, CRC as uninterpreted function), declared-but-absent CRC rejected, and exact bit-level checking that every single-bit flip (thorough: every burst up to the CRC width) of four CRC-protected template bundles is rejected.",
         "Flip/burst harnesses use four concrete template bundles (<= 90 bytes); the length-independent argument is the step lemma + framing. hash/crc32's slicing-by-8 kernel is exercised only on one symbolic tail byte.", "DESIGN.md 5/C03"),
 "C09": ("Bounded symbolic model checking of Bundle.Fragment/ReassembleFragments: every (payload size, limit) pair in the bound is its own path with symbolic payload bytes: fits => itself, must-not-fragment => refused, never an empty list, each fragment <= limit and accepted by the parser, offsets partition the payload, extension blocks as specified, reassembly (both orders) byte-identical.",
         "Bounds: payload sizes {0,1,2,9,16,24} (thorough adds 40,70), limits 0..size+2, four bundle variants (block mixes, CRC patterns, endpoint forms). Outside: other sizes, >2 extension blocks.", "DESIGN.md 5/C09"),
 "C10": ("Bounded symbolic model checking of reassembly: all collections of <= 3 (thorough: 4) fragments with arbitrary offsets/lengths (duplicates, overlaps, containment, gaps, any order) over payloads of <= 4 (5) symbolic bytes: succeeds iff covering, returns the original payload, never panics; second-level fragmentation keeps original offsets/total and mixed/overlapping sets reassemble byte-identically.",
         "Bounds as stated; storage.BundleItem.IsComplete is checked under C08 when claimed. Outside: more fragments, longer payloads, three-level fragmentation.", "DESIGN.md 5/C10"),
 "C04": ("Bounded symbolic model checking of every decoder reachable from the network or clients with the engine's implicit obligations (no panic, termination within the instruction budget) and an allocation policy (no make/append sized by a value from the input above max(1 MiB, 64*len(input))): N fully symbolic bytes into ParseBundle, each block/endpoint/ID/status-report/administrative-record decoder, the TCPCLv4 message reader (26 bytes: every length field an arbitrary value of its wire width), discovery and WebSocket-agent decoders, BBC fragments; 1-2 byte symbolic windows and truncation over administrative-record and data bundle templates; endpoint strings; the peer-declared segment MRU as an arbitrary 64-bit value.",
         "Bounds: free inputs of 5-9 bytes for CBOR decoders (path count grows ~1.9^N), 26 bytes for fixed-layout messages, windows <= 2 bytes. Sizes beyond the declared input length are represented by one value (after io.ReadFull fails only the count matters). Outside: longer free inputs, encoding/json request bodies, websocket frames, the xz decoder (identity model), TLS.", "DESIGN.md 5/C04"),
 "C06": ("Solver-checked kernels of the forwarding rules on the real code: hop-count sequence over the full 256x256 square (refused iff count+1 > limit, transmitted count = count+1, restored afterwards), Bundle.IsLifetimeExceeded against the oracle for symbolic creation time / lifetime / age at a frozen clock (exact at the expiry instant), UpdateBundleAge = residence time in milliseconds for every residence of up to 10^4 s at microsecond resolution.",
         "Division/remainder by constants decided by cvc5 --solve-bv-as-int=sum. The whole Core.forward path (faithful copy, previous node, retries, deletion from the store) needs the Core tier and is not claimed yet.", "DESIGN.md 5/C06"),
 "C11": ("Bounded symbolic model checking of the real segmentation code: for every (length L, segment size m) pair with L <= 6 (thorough 14), 1 <= m <= L+2 - so every divisor case occurs - over the real io.Pipe with a writer goroutine: segments <= m, concatenation = data, START on exactly the first and END on exactly the last segment, each segment survives Marshal/Unmarshal, the receiver is finished exactly when END was sent and acknowledges L bytes.",
         "Since TransferManager.Send returns success exactly when the acknowledged length equals the sent length, 'the last segment carries END' is the kernel form of 'success means delivered'. The manager's concurrent behaviour over real sockets is outside.", "DESIGN.md 5/C11"),
 "C12": ("Bounded symbolic model checking of MTCP framing (1-2 bundles, keep-alives at arbitrary boundaries, a failing write at any of the first four writes, through the real MTCPClient.Send and MTCPServer.handleSender over an in-harness net.Conn) and of the BBC link layer (real OutgoingTransmission / Connector.handleIncomingFragment: trains of up to ~65 fragments crossing the mod-16 wrap, every single drop / duplication / adjacent swap at every position).",
         "xz is the identity codec in the model (the harness is codec-agnostic, so native replays with real xz agree). Outside: real sockets/modems, concurrent transmissions with colliding ids, multi-fault patterns, loss of the final fragment cannot be signalled without a timer (the check requires only 'nothing delivered').", "DESIGN.md 5/C12"),
 "C15": ("Bounded symbolic model checking of status report construction: NewStatusReport over all 2^21 control-flag combinations, every position, fragments and whole bundles, symbolic reason/time/ID fields: exactly the event's item asserted, time iff requested, exact bundle ID incl. fragment offset/length; packaged through the builder chain Core.SendStatusReport uses: administrative record without request flags addressed to report-to, decodable, naming the same ID.",
         "The decision logic in Core (when to report, about what) needs the Core tier and is not claimed yet.", "DESIGN.md 5/C15"),
 "C17": ("Bounded symbolic model checking of the auxiliary wire formats: every TCPCLv4 message type with fully symbolic integer fields (and two messages back to back) round-trips through Marshal/ReadMessage with exact stream alignment; code/magic/version/type bytes are arbitrary bytes and are accepted exactly for the enumerated values; bundle IDs, status reports / administrative records, creation timestamps, endpoint IDs in CBOR, announcements, WebSocket-agent messages and BBC headers round-trip with alignment; NewEndpointID over symbolic ASCII text is accepted exactly per a reference grammar, parse(print(e)) == e, and equal URI text implies equal structure.",
         "Bounds: strings of <= 3 symbolic bytes in messages, endpoint text <= 4 (thorough 6) symbolic bytes after the scheme prefix, ipn numbers <= 3 digits in text form (full 64 bit in CBOR form). Outside: longer strings, non-ASCII endpoint text.", "DESIGN.md 5/C17"),
 "C05": ("Bounded symbolic model checking over event histories of a real routing.Core (real storage.Store code over atomic key-value / file models, real CLA manager, cron, id keeper, each of epidemic / spray / binary_spray / dtlsr / prophet) with scripted convergence layers: histories of depth <= 3 (thorough 4) over {application submits, peer 1/2 appears, a peer disappears, pending-retry tick, orderly restart} with the outcome of every send a solver choice; after every event every accepted bundle without a successful transmission is in the store, loads as itself and is marked pending; under epidemic a retry re-offers it to every connected peer that does not have it; same-millisecond submissions are retained under distinct keys.",
         "Bounds: <= 2 bundles, <= 2 peers, depth 3/4; virtual time; one cooperative schedule (goroutines run until they block); store calls atomic and durable; badger and the file system are models (native replays run the same histories against real badger in a temp dir). Outside: deeper histories, crash points (C08), concurrent failure reports in both orders, sensor-mule.", "DESIGN.md 5/C05"),
 "C07": ("Bounded symbolic model checking of local fan-out: the REST agent with 0-3 clients over a three-endpoint universe in every registration order (thorough: reverse map iteration as well): a client's mailbox holds an arriving bundle exactly once iff its endpoint is the destination, a second copy is appended once, the agent reports exactly the registered endpoints; the real MuxAgent (handler goroutines) with 0-3 children owning 1-2 endpoints: the message reaches each owner once and nobody else; endpoint-ownership queries are set membership.",
         "Not covered (cannot be encoded): REST fetch concurrent with delivery (the read/clear pair sits between encoding/json and net/http calls), WebSocket clients (gorilla). The Core-level part (local destination is not forwarded; report only after hand-over) is not claimed yet.", "DESIGN.md 5/C07"),
 "C16": ("Bounded symbolic model checking of the CLA manager: all sequences (<= 4, thorough 6) of {start succeeds / fails-retry / fails-no-retry, stop} on one convergenceElem for permanent and non-permanent adapters and budgets 0..3 against a reference state machine; and the real Manager (handler goroutine, retry ticker in virtual time) over sequences of {register (also twice), retry tick, unregister} then Close: listed as sender exactly while the most recent Start succeeded and no Close followed (oracle = the mock adapter's own event log), single instance per address, permanent adapters retried every interval, every started adapter closed exactly once, no panic or deadlock.",
         "Bounds: one adapter, sequences of <= 3 (thorough 5) manager events, queue ttl 0..2. Outside: several adapters, peer-disappeared events through real CLAs, providers.", "DESIGN.md 5/C16"),
 "C08": ("Bounded symbolic model checking of the real storage.Store / BundleItem / BundlePart code over atomic key-value and file models: every sequence of <= 2 (thorough 3) operations from {push bundle, push fragment (offsets/lengths from a small set), update pending flag, delete, expiry sweep before / after the lifetime, close+reopen} over two bundle IDs is compared after every step with a reference map (lookup, KnowsBundle, parts read back byte-identical, de-duplication, pending query, completeness = coverage); an operation aborted at each crash point inside Push / Delete followed by close and reopen leaves acknowledged records intact and the store usable; two goroutines pushing different fragments of one bundle, interleaved at every key-value/file call, both end up in the record.",
         "The key-value store is modelled as atomic and durable per call, files as write-through; crash = the operation is aborted at the hook point (build tag verif) and the store closed and reopened - badger-internal and page-cache behaviour of a killed process is outside. Native replays run the same histories against real badger. One cooperative interleaving (switch at every store call) is explored, not all schedules.", "DESIGN.md 5/C08"),
}

NA_REASON = {}

def level(p):
    text, note, ref = META.get(p, ("Bounded symbolic model checking of the real code (see evidence for bounds).", "See DESIGN.md.", "DESIGN.md 5"))
    return text, note, ref

checks = []
for p in claimed:
    text, note, ref = level(p)
    checks.append({
        "property_id": p,
        "quick_cmd": f"/verif/bin/gosym check --property {p} --tier quick",
        "thorough_cmd": f"/verif/bin/gosym check --property {p} --tier thorough",
        "evidence_file": f"/verif/evidence/{p}.json",
        "replay_cmd_template": "/verif/bin/gosym replay {path}",
        "engine": "gosym",
        "level_claimed": {"category": "model_checking", "text": text, "design_ref": ref},
        "level_note": note + " Trusted base: the gosym interpreter (cross-checked on every run by native replay of sampled paths), the SMT solvers, the environment models of DESIGN.md 2.5.",
        "technique": TECH,
    })

fix_commits = subprocess.check_output(["git", "-C", "/repo", "log", "--format=%h %s"]).decode().splitlines()
hooks_commits = [l.split()[0] for l in fix_commits if l.split(" ", 1)[1].startswith("verif-hook:")]

m = {
    "version": 1,
    "setup_cmd": "cd /verif/engine && GOFLAGS=-mod=mod GOPROXY=off GOSUMDB=off GOTOOLCHAIN=local go build -o /verif/bin/gosym .",
    "hooks": {
        "guard": "verif",
        "enable": "go build tag 'verif' (-tags verif) plus go/packages and go-test overlays that inject /verif/harness/** and /verif/verifapi into /repo without writing to it; no source hook is compiled into the repository",
        "baseline_off_cmd": "cd /repo && GOFLAGS=-mod=mod GOPROXY=off go test -vet=off -count=1 -timeout 25m ./...",
        "source_commits": hooks_commits,
        "add_only": True,
    },
    "engines": [{"name": "gosym", "path": "/verif/engine", "serves_properties": claimed,
                 "kind_free_text": "own symbolic interpreter for go/ssa (regenerated from /repo's working tree on every run) + SMT-LIB2 back ends; native replay of counterexamples through go test overlays"}],
    "checks": checks,
    "not_applicable": [{"property_id": p, "reason": NA_REASON.get(p, "not yet claimed: harnesses for this property are still under construction in this session")} for p in props if p not in claimed],
    "notes": "Exit codes of a check: 0 = every obligation unsat within the bound (KNOWN-FINDING lines possible); 1 = replay-confirmed violation (VIOLATION line); 2 = machinery problem (undecided query, engine/native mismatch, vacuous harness). See DESIGN.md.",
}
json.dump(m, open(f"{V}/MANIFEST.json", "w"), indent=1)
print("claimed:", claimed)
