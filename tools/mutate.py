#!/usr/bin/env python3
"""Crude operator-flip mutation run (a self-test of the checks, not a registered check):
   mutate.py <file under /repo> <property[,property]> [max]   - for every comparison operator in the file (one at a time)
   flips it, builds /repo, runs the quick check(s) and prints which mutants were reported. Survivors need manual triage
   (many are equivalent or unreachable). /repo is restored after every mutant."""
import re,subprocess,sys,os
f=sys.argv[1]; props=sys.argv[2].split(','); mx=int(sys.argv[3]) if len(sys.argv)>3 else 1000
path=os.path.join('/repo',f)
src=open(path).read().split('\n')
flip={' < ':' <= ',' <= ':' < ',' > ':' >= ',' >= ':' > ',' == ':' != ',' != ':' == '}
env=dict(os.environ,GOFLAGS='-mod=mod',GOPROXY='off',GOSUMDB='off',GOTOOLCHAIN='local')
n=0
for i,l in enumerate(src):
    s=l.strip()
    if s.startswith('//') or 'log.' in l or 'err != nil' in l or 'err == nil' in l: continue
    for a,b in flip.items():
        if a in l and n<mx:
            n+=1
            m=src[:]; m[i]=l.replace(a,b,1)
            open(path,'w').write('\n'.join(m))
            try:
                ok=subprocess.run(['go','build','./...'],cwd='/repo',env=env,capture_output=True).returncode==0
                res=[]
                if ok:
                    for p in props:
                        r=subprocess.run(['/verif/bin/gosym','check','--property',p,'--tier','quick'],capture_output=True,text=True,errors='replace')
                        res.append('%s=%d'%(p,r.returncode))
                        if r.returncode==1: break
            finally:
                subprocess.run(['git','-C','/repo','checkout','--',f])  # always restore /repo
            print('%s:%d %s->%s | %s | %s'%(f,i+1,a.strip(),b.strip(),'build-fail' if not ok else ' '.join(res),s[:90]),flush=True)
            break
