// Package zzverif is the harness API of /verif (see /verif/DESIGN.md 4.1).
//
// Under the symbolic engine (gosym) every function in this file is
// intercepted; the bodies below are the *native* twins used when a
// counterexample or a sampled path is replayed against the real build: inputs
// come from the replay case selected by RunCase.
package zzverif

import (
	"encoding/json"
	"fmt"
	"math"
	"os"
	"runtime"
	"runtime/debug"
	"time"
)

// Case is one replay case (written by the engine).
type Case struct {
	ID      string            `json:"id"`
	Harness string            `json:"harness"`
	Scalars map[string]uint64 `json:"scalars"`
	Bytes   map[string][]byte `json:"bytes"`
}

// Outcome is what the native run observed.
type Outcome struct {
	ID           string              `json:"id"`
	Harness      string              `json:"harness"`
	FailedAssert string              `json:"failed_assert,omitempty"`
	Panic        string              `json:"panic,omitempty"`
	AssumeFailed bool                `json:"assume_failed,omitempty"`
	Timeout      bool                `json:"timeout,omitempty"`
	Reach        []string            `json:"reach"`
	Observed     map[string][]string `json:"observed"`
	AllocBytes   uint64              `json:"alloc_bytes"`
	Seconds      float64             `json:"seconds"`
	MissingInput []string            `json:"missing_input,omitempty"`
}

type stop struct{ why string }

var cur *Case
var out *Outcome

func scalar(name string) uint64 {
	if cur == nil {
		panic("zzverif: no replay case active (harness functions only run under gosym or RunCase)")
	}
	v, ok := cur.Scalars[name]
	if !ok {
		out.MissingInput = append(out.MissingInput, name)
	}
	return v
}

func U8(name string) uint8   { return uint8(scalar(name)) }
func U16(name string) uint16 { return uint16(scalar(name)) }
func U32(name string) uint32 { return uint32(scalar(name)) }
func U64(name string) uint64 { return scalar(name) }
func Bool(name string) bool  { return scalar(name) != 0 }

// F64 is an arbitrary float64 bit pattern.
func F64(name string) float64 { return math.Float64frombits(scalar(name)) }

// Int is an arbitrary int in [lo,hi] (kept symbolic by the engine).
func Int(name string, lo, hi int) int {
	v := int(int64(scalar(name)))
	if v < lo || v > hi {
		panic(stop{"assume"})
	}
	return v
}

// Size is an int in [lo,hi] that the engine case-splits at once (one path per value).
func Size(name string, lo, hi int) int { return Int(name, lo, hi) }

// Choose is Size(name, 0, n-1).
func Choose(name string, n int) int { return Int(name, 0, n-1) }

// Bytes returns n arbitrary bytes.
func Bytes(name string, n int) []byte {
	b := make([]byte, n)
	if cur == nil {
		panic("zzverif: no replay case active")
	}
	copy(b, cur.Bytes[name])
	return b
}

// ASCII returns a string of n arbitrary bytes < 0x80.
func ASCII(name string, n int) string {
	b := Bytes(name, n)
	for _, c := range b {
		if c >= 0x80 {
			panic(stop{"assume"})
		}
	}
	return string(b)
}

// Assume restricts the inputs considered.
func Assume(c bool) {
	if !c {
		panic(stop{"assume"})
	}
}

// Assert states the property.
func Assert(c bool, label string) {
	if !c {
		out.FailedAssert = label
		panic(stop{"assert"})
	}
}

// Reach is a reachability witness.
func Reach(label string) { out.Reach = append(out.Reach, label) }

// Known declares that, from here on, violations whose inputs satisfy cond
// belong to the known finding id (see /verif/known_findings.json).
func Known(id string, cond bool) {}

// Observe records concrete values so that the engine can compare its own
// evaluation of the same expressions under the model with the native run.
func Observe(name string, vals ...interface{}) {
	for _, v := range vals {
		out.Observed[name] = append(out.Observed[name], fmt.Sprint(v))
	}
}

// Ite64 / IteInt / IteBool choose without forking the symbolic path.
func Ite64(c bool, a, b uint64) uint64 {
	if c {
		return a
	}
	return b
}
func IteInt(c bool, a, b int) int {
	if c {
		return a
	}
	return b
}
func IteBool(c bool, a, b bool) bool {
	if c {
		return a
	}
	return b
}

// And / Or / Not / Implies / Iff combine conditions without forking.
func And(cs ...bool) bool {
	for _, c := range cs {
		if !c {
			return false
		}
	}
	return true
}
func Or(cs ...bool) bool {
	for _, c := range cs {
		if c {
			return true
		}
	}
	return false
}
func Not(c bool) bool        { return !c }
func Implies(a, b bool) bool { return !a || b }
func Iff(a, b bool) bool     { return a == b }

// InputLen declares the number of input bytes a decoder harness feeds; the
// engine's allocation policy (C04) is max(1 MiB, 64*n).
func InputLen(n int) {}

// Yield is an explicit scheduling point.
func Yield() { runtime.Gosched() }

// Concrete64 forces a case split on x (one path per feasible value).
func Concrete64(x uint64) uint64 { return x }
func ConcreteInt(x int) int      { return x }

// Param is a per-check parameter of the harness (set in /verif/checks/*.json; def when absent).
func Param(name string, def int) int {
	if cur != nil {
		if v, ok := cur.Scalars["param!"+name]; ok {
			return int(int64(v))
		}
	}
	return def
}

// TempDir returns a fresh directory for this case (removed when the case ends); under the engine it is a name in
// the file-system model.
func TempDir(name string) string {
	d, err := os.MkdirTemp("", "zzverif-"+name+"-")
	if err != nil {
		panic(err)
	}
	tempDirs = append(tempDirs, d)
	return d
}

var tempDirs []string

// Symbolic reports whether the harness runs under the engine.
func Symbolic() bool { return false }

// RunCase runs harness f natively on case c.
func RunCase(c *Case, f func(), limit time.Duration) (o *Outcome) {
	o = &Outcome{ID: c.ID, Harness: c.Harness, Observed: map[string][]string{}, Reach: []string{}}
	cur, out = c, o
	done := make(chan struct{})
	var ms0, ms1 runtime.MemStats
	runtime.ReadMemStats(&ms0)
	t0 := time.Now()
	go func() {
		defer close(done)
		defer func() {
			if r := recover(); r != nil {
				if s, ok := r.(stop); ok {
					if s.why == "assume" {
						o.AssumeFailed = true
					}
					return
				}
				o.Panic = fmt.Sprintf("%v\n%s", r, debug.Stack())
			}
		}()
		f()
	}()
	select {
	case <-done:
	case <-time.After(limit):
		o.Timeout = true
	}
	runtime.ReadMemStats(&ms1)
	o.AllocBytes = ms1.TotalAlloc - ms0.TotalAlloc
	o.Seconds = time.Since(t0).Seconds()
	return o
}

// RunFile runs all cases of the file named by $VERIF_REPLAY and writes the
// outcomes to $VERIF_REPLAY_OUT. Returns the number of cases run.
func RunFile(harnesses map[string]func()) (int, error) {
	in := os.Getenv("VERIF_REPLAY")
	if in == "" {
		return 0, nil
	}
	data, err := os.ReadFile(in)
	if err != nil {
		return 0, err
	}
	var cases []Case
	if err := json.Unmarshal(data, &cases); err != nil {
		return 0, err
	}
	var outs []*Outcome
	for i := range cases {
		f, ok := harnesses[cases[i].Harness]
		if !ok {
			continue
		}
		o := RunCase(&cases[i], f, 100000*time.Hour) // the clock is fake (-tags faketime): busy hangs are ended by timeout(1) from outside
		outs = append(outs, o)
		if o.Timeout {
			break // the stuck goroutine still runs; stop here
		}
	}
	// directories of finished cases are removed only now: background goroutines of a case (e.g. a database) may
	// still use them after the harness function returned
	for _, d := range tempDirs {
		_ = os.RemoveAll(d)
	}
	tempDirs = nil
	res, _ := json.MarshalIndent(outs, "", " ")
	if p := os.Getenv("VERIF_REPLAY_OUT"); p != "" {
		if err := os.WriteFile(p, res, 0o644); err != nil {
			return len(outs), err
		}
	}
	return len(outs), nil
}

// CborHeaders walks a (concrete) CBOR encoding and returns the offsets of the headers of all definite-length
// arrays, maps, byte strings and text strings at the top nesting level of the encoding and inside arrays, maps
// and tags (not inside strings). Used by the C04 "wide header" harnesses to re-encode one count or length of an
// otherwise valid message as an arbitrary 64-bit value.
func CborHeaders(b []byte) (pos []int) {
	i := 0
	for i < len(b) {
		start := i
		m, ai := b[i]>>5, b[i]&31
		i++
		var arg uint64
		switch {
		case ai < 24:
			arg = uint64(ai)
		case ai >= 24 && ai <= 27:
			n := 1 << (ai - 24)
			if i+n > len(b) {
				return
			}
			for k := 0; k < n; k++ {
				arg = arg<<8 | uint64(b[i+k])
			}
			i += n
		case ai == 31:
			continue // indefinite length or break: no count to widen
		default:
			return
		}
		switch m {
		case 2, 3:
			pos = append(pos, start)
			if uint64(len(b)-i) < arg {
				return
			}
			i += int(arg)
		case 4, 5:
			pos = append(pos, start)
		}
	}
	return
}

// WidenHeader returns enc with the CBOR header at offset p re-encoded in its 9-byte form whose 8 argument bytes are arg.
func WidenHeader(enc []byte, p int, arg []byte) []byte {
	ai := enc[p] & 31
	skip := 1
	if ai >= 24 && ai <= 27 {
		skip += 1 << (ai - 24)
	}
	out := append([]byte{}, enc[:p]...)
	out = append(out, enc[p]&0xe0|27)
	out = append(out, arg...)
	return append(out, enc[p+skip:]...)
}
